/-
  Proofs/DCGSem — for simple grammars (ground terminals, non-terminals without arguments,
  sequences, alternations; no push-back) and ground input lists, the reference SLD evaluation of
  the TRANSLATED grammar and body yields exactly the remainders of the denotation, in order, with
  the same fuel.
-/
import PrologVerif.Proofs.DCGSemBase
import PrologVerif.Proofs.DCGThreads
namespace PrologVerif.Grammar
open PrologVerif

/-- names that the reference evaluation treats as control constructs / built-ins when they have
    two more arguments: a non-terminal of that name would be taken for the built-in -/
def reserved : List String := [",", ";", "->", "=", "\\=", "==", "\\==", "call"]

/-- goals allowed inside `{}` in the fragment -/
def blockGoal (g : Term) : Bool :=
  g == .atom "true" || g == .atom "fail" || g == .atom "false" || g == .atom "!"

def Body.isIfthen : Body → Bool
  | .ifthen _ _ => true
  | _ => false

/-- the fragment: `[]`, ground terminals, non-terminals without arguments, `,`, `;`/`|`,
    if-then(-else), `\+`, `!`, `{true}`, `{fail}`, `{!}` -/
def Body.simple : Body → Bool
  | .eps => true
  | .terminals ts => ts.all groundT
  | .nt f as => as.isEmpty && !reserved.contains f
  | .seq a b => a.simple && b.simple
  | .alt a b => a.simple && b.simple && !a.isIfthen
  | .ite c t e => c.simple && t.simple && e.simple
  | .ifthen c t => c.simple && t.simple
  | .block g => blockGoal g
  | .not b => b.simple
  | .cut => true
  | _ => false

/-- unification fuel that is enough for the terminal lists of a body -/
def Body.need : Body → Nat
  | .terminals ts => (Term.list ts Term.nilT).size
  | .seq a b => max a.need b.need
  | .alt a b => max a.need b.need
  | .ite c t e => max c.need (max t.need e.need)
  | .ifthen c t => max c.need t.need
  | .not b => b.need
  | _ => 0

/-- rules of the fragment: no arguments; push-back, if any, a list of ground terminals -/
def Rule.simple (r : Rule) : Bool :=
  r.args.isEmpty && (match r.pushback with | none => true | some pb => pb.all groundT) &&
    r.body.simple && r.nv == 0 && !reserved.contains r.name

/-! ### the reference evaluation on the goal shapes a simple translation produces -/

theorem solveGoal_eq (uf : Nat) (call : Term → St → Res SOut) (x y : Term) (st : St) :
    solveGoal uf call (Term.a2 "=" x y) st =
      (match unify uf st.σ x y with
       | .out => .error .fuel
       | .done none => .ok ⟨[], false⟩
       | .done (some σ') => .ok ⟨[{ st with σ := σ' }], false⟩) := by
  simp only [Term.a2, solveGoal]; rfl

theorem solveGoal_conj (uf : Nat) (call : Term → St → Res SOut) (a b : Term) (st : St) :
    solveGoal uf call (Term.a2 "," a b) st =
      (match solveGoal uf call a st with
       | .error e => .error e
       | .ok oa =>
         match sAndThen (fun st' => solveGoal uf call b st') oa.answers with
         | .error e => .error e
         | .ok ob => .ok ⟨ob.answers, oa.cut || ob.cut⟩) := by
  simp only [Term.a2, solveGoal]; rfl

def notThen (g : Term) : Prop := ∀ c t, g ≠ .app "->" (.cons c (.cons t .nil))

theorem solveGoal_disj (uf : Nat) (call : Term → St → Res SOut) (a b : Term) (st : St) (h : notThen a) :
    solveGoal uf call (Term.a2 ";" a b) st =
      (match solveGoal uf call a st with
       | .error e => .error e
       | .ok oa =>
         if oa.cut then .ok oa
         else match solveGoal uf call b st with
           | .error e => .error e
           | .ok ob => .ok ⟨oa.answers ++ ob.answers, ob.cut⟩) := by
  simp only [Term.a2]
  conv => lhs; unfold solveGoal
  split <;> simp_all [notThen]
  rfl

theorem solveGoal_ite (uf : Nat) (call : Term → St → Res SOut) (c t e : Term) (st : St) :
    solveGoal uf call (Term.a2 ";" (Term.a2 "->" c t) e) st =
      (match solveGoal uf call c st with
       | .error err => .error err
       | .ok oc =>
         match oc.answers with
         | st' :: _ => solveGoal uf call t st'
         | [] => solveGoal uf call e st) := by
  simp only [Term.a2, solveGoal]; rfl

theorem solveGoal_ifthen (uf : Nat) (call : Term → St → Res SOut) (c t : Term) (st : St) :
    solveGoal uf call (Term.a2 "->" c t) st =
      (match solveGoal uf call c st with
       | .error err => .error err
       | .ok oc =>
         match oc.answers with
         | st' :: _ => solveGoal uf call t st'
         | [] => .ok ⟨[], false⟩) := by
  simp only [Term.a2, solveGoal]; rfl

theorem solveGoal_not (uf : Nat) (call : Term → St → Res SOut) (g : Term) (st : St) :
    solveGoal uf call (Term.a1 "\\+" g) st =
      (match solveGoal uf call g st with
       | .error err => .error err
       | .ok o => .ok ⟨if o.answers.isEmpty then [st] else [], false⟩) := by
  simp only [Term.a1, solveGoal]; rfl

theorem solveGoal_cut (uf : Nat) (call : Term → St → Res SOut) (st : St) :
    solveGoal uf call (.atom "!") st = .ok ⟨[st], true⟩ := by
  simp only [solveGoal]

theorem solveGoal_true (uf : Nat) (call : Term → St → Res SOut) (st : St) :
    solveGoal uf call (.atom "true") st = .ok ⟨[st], false⟩ := by
  simp only [solveGoal]

theorem solveGoal_fail (uf : Nat) (call : Term → St → Res SOut) (st : St) :
    solveGoal uf call (.atom "fail") st = .ok ⟨[], false⟩ := by
  simp only [solveGoal]

theorem solveGoal_false (uf : Nat) (call : Term → St → Res SOut) (st : St) :
    solveGoal uf call (.atom "false") st = .ok ⟨[], false⟩ := by
  simp only [solveGoal]

theorem solveGoal_user (uf : Nat) (call : Term → St → Res SOut) (f : String) (x y : Term) (st : St)
    (hf : reserved.contains f = false) :
    solveGoal uf call (.app f (.cons x (.cons y .nil))) st = call (.app f (.cons x (.cons y .nil))) st := by
  conv => lhs; unfold solveGoal
  split <;> simp_all [reserved]

/-! ### the simulation relation -/

/-- `st'` extends `st` by bindings of `s`, of hidden variables in [lo, hi) and of variables
    created since; every variable bound in `st'` is below `st'.next` -/
def Ext (st : St) (s lo hi : Nat) (st' : St) : Prop :=
  st.next ≤ st'.next ∧ (∀ p ∈ st'.σ, p.1 < st'.next) ∧
  ∃ Δ, st'.σ = Δ ++ st.σ ∧
    ∀ p ∈ Δ, p.1 = s ∨ (lo ≤ p.1 ∧ p.1 < hi) ∨ (st.next ≤ p.1 ∧ p.1 < st'.next)

/-- what has to hold before a translated body is run: the input denotes the ground list `l`;
    the remainder variable `s` and the hidden variables [lo, hi) are unbound and in scope -/
structure Pre (st : St) (x : Term) (l : List Term) (s lo hi : Nat) : Prop where
  inp : Denotes st.σ x l
  sUnb : ∀ p ∈ st.σ, p.1 ≠ s
  hUnb : ∀ p ∈ st.σ, ¬ (lo ≤ p.1 ∧ p.1 < hi)
  sLt : s < st.next
  hiLe : hi ≤ st.next
  sOut : ¬ (lo ≤ s ∧ s < hi)
  wf : ∀ p ∈ st.σ, p.1 < st.next

/-- an answer of the reference evaluation and an answer of the denotation: the denotation's
    state is untouched, its remainder is a ground list, and the remainder variable denotes the
    same list -/
def AnsRel (st : St) (s lo hi : Nat) (dst : St) (st' : St) (a : St × Term) : Prop :=
  a.1 = dst ∧ ∃ r : List Term, a.2 = Term.list r Term.nilT ∧
    Denotes st'.σ (.var s) r ∧ Ext st s lo hi st'

def Rel (st : St) (s lo hi : Nat) (dst : St) : Res SOut → Res Out → Prop
  | .error _, .error _ => True
  | .ok A, .ok D => A.cut = D.cut ∧ All2 (AnsRel st s lo hi dst) A.answers D.answers
  | _, _ => False

theorem Ext.mono {st st' : St} {s lo hi lo' hi' : Nat} (h : Ext st s lo hi st')
    (hsub : ∀ v, lo ≤ v → v < hi → lo' ≤ v ∧ v < hi') : Ext st s lo' hi' st' := by
  obtain ⟨a, b, Δ, c, d⟩ := h
  refine ⟨a, b, Δ, c, fun p hp => ?_⟩
  rcases d p hp with h | h | h
  · exact .inl h
  · exact .inr (.inl (hsub _ h.1 h.2))
  · exact .inr (.inr h)

theorem Ext.refl_bind (st : St) (s lo hi : Nat) (u : Term) (hs : s < st.next) (wf : ∀ p ∈ st.σ, p.1 < st.next) :
    Ext st s lo hi { st with σ := (s, u) :: st.σ } := by
  refine ⟨Nat.le_refl _, ?_, [(s, u)], rfl, ?_⟩
  · intro p hp
    simp only [List.mem_cons] at hp
    rcases hp with rfl | hp
    · exact hs
    · exact wf p hp
  · intro p hp; simp at hp; subst hp; exact .inl rfl

/-- composing the frame of a first part (remainder `m`) with the frame of a second part
    (remainder `s`) run in one of its answers -/
theorem Ext.comp {st st' st'' : St} {s m lo hi lo1 hi1 lo2 hi2 : Nat}
    (h1 : Ext st m lo1 hi1 st') (h2 : Ext st' s lo2 hi2 st'')
    (hm : lo ≤ m ∧ m < hi) (a1 : lo ≤ lo1) (a2 : hi1 ≤ hi) (b1 : lo ≤ lo2) (b2 : hi2 ≤ hi) :
    Ext st s lo hi st'' := by
  obtain ⟨n1, _, Δ1, e1, f1⟩ := h1
  obtain ⟨n2, w2, Δ2, e2, f2⟩ := h2
  refine ⟨by omega, w2, Δ2 ++ Δ1, by rw [e2, e1, List.append_assoc], fun p hp => ?_⟩
  rcases List.mem_append.1 hp with hp | hp
  · rcases f2 p hp with h | h | h
    · exact .inl h
    · exact .inr (.inl ⟨by omega, by omega⟩)
    · exact .inr (.inr ⟨by omega, h.2⟩)
  · rcases f1 p hp with h | h | h
    · exact .inr (.inl ⟨by omega, by omega⟩)
    · exact .inr (.inl ⟨by omega, by omega⟩)
    · exact .inr (.inr ⟨h.1, by omega⟩)

/-- a variable that the frame does not allow to be bound stays unbound -/
theorem Ext.unbound {st st' : St} {s lo hi : Nat} (h : Ext st s lo hi st') (v : Nat)
    (hv : ∀ p ∈ st.σ, p.1 ≠ v) (h1 : v ≠ s) (h2 : ¬ (lo ≤ v ∧ v < hi)) (h3 : v < st.next) :
    ∀ p ∈ st'.σ, p.1 ≠ v := by
  obtain ⟨_, _, Δ, e, f⟩ := h
  intro p hp
  rw [e] at hp
  rcases List.mem_append.1 hp with hp | hp
  · rcases f p hp with h | h | h
    · omega
    · intro hh; apply h2; omega
    · omega
  · exact hv p hp

/-- a dereferenced non-variable stays what it is -/
theorem Ext.walk_stable {st st' : St} {s lo hi : Nat} (h : Ext st s lo hi st') (x t : Term)
    (hx : walk st.σ x = t) (ht : isVar t = false) : walk st'.σ x = t := by
  obtain ⟨_, _, Δ, e, _⟩ := h
  rw [e, walk_append, hx, walk_nonvar Δ t ht]

theorem AnsRel.mono {st dst st' : St} {s lo hi lo' hi' : Nat} {a : St × Term}
    (h : AnsRel st s lo hi dst st' a) (hsub : ∀ v, lo ≤ v → v < hi → lo' ≤ v ∧ v < hi') :
    AnsRel st s lo' hi' dst st' a := by
  obtain ⟨a1, r, a2, a3, a5⟩ := h
  exact ⟨a1, r, a2, a3, a5.mono hsub⟩

theorem Rel.mono {st dst : St} {s lo hi lo' hi' : Nat} {x : Res SOut} {y : Res Out}
    (h : Rel st s lo hi dst x y) (hsub : ∀ v, lo ≤ v → v < hi → lo' ≤ v ∧ v < hi') :
    Rel st s lo' hi' dst x y := by
  cases x <;> cases y <;> simp_all [Rel]
  exact h.2.imp (fun _ _ h => h.mono hsub)

/-- sequencing: run a second part in every answer of a first part -/
theorem seq_sim {st dst : St} {s m lo hi lo1 hi1 lo2 hi2 : Nat}
    (k : St → Res SOut) (kd : St → Term → Res Out)
    (hk : ∀ st' r, Ext st m lo1 hi1 st' → Denotes st'.σ (.var m) r →
      Rel st' s lo2 hi2 dst (k st') (kd dst (Term.list r Term.nilT)))
    (hm : lo ≤ m ∧ m < hi) (a1 : lo ≤ lo1) (a2 : hi1 ≤ hi) (b1 : lo ≤ lo2) (b2 : hi2 ≤ hi)
    {As : List St} {Ds : List (St × Term)} (h : All2 (AnsRel st m lo1 hi1 dst) As Ds) :
    Rel st s lo hi dst (sAndThen k As) (andThen kd Ds) := by
  induction h with
  | nil => simp [sAndThen, andThen, Rel]; exact .nil
  | @cons st' a As Ds hr _ ih =>
    obtain ⟨sa, ra⟩ := a
    obtain ⟨e1, r, e2, hw, hext⟩ := hr
    simp only at e1 e2
    subst e1 e2
    have h1 := hk st' r hext hw
    simp only [sAndThen, andThen]
    cases hx : k st' with
    | error e =>
      cases hy : kd sa (Term.list r Term.nilT) with
      | error e' => simp [Rel]
      | ok od => simp [hx, hy, Rel] at h1
    | ok o =>
      cases hy : kd sa (Term.list r Term.nilT) with
      | error e' => simp [hx, hy, Rel] at h1
      | ok od =>
        simp only [hx, hy, Rel] at h1
        obtain ⟨c1, hall⟩ := h1
        have hall' : All2 (AnsRel st s lo hi sa) o.answers od.answers := by
          refine hall.imp (fun st'' a h => ?_)
          obtain ⟨f1, r', f2, f4, f5⟩ := h
          exact ⟨f1, r', f2, f4, hext.comp f5 hm a1 a2 b1 b2⟩
        by_cases hc : o.cut = true
        · have hc' : od.cut = true := c1 ▸ hc
          simp only [hc, hc', if_true, Rel]
          exact ⟨trivial, hall'⟩
        · have hc0 : o.cut = false := by simpa using hc
          have hc' : od.cut = false := c1 ▸ hc0
          simp only [hc0, hc', Bool.false_eq_true, if_false]
          cases hx2 : sAndThen k As with
          | error e =>
            cases hy2 : andThen kd Ds with
            | error e' => simp [Rel]
            | ok od2 => simp [hx2, hy2, Rel] at ih
          | ok o2 =>
            cases hy2 : andThen kd Ds with
            | error e' => simp [hx2, hy2, Rel] at ih
            | ok od2 =>
              simp only [hx2, hy2, Rel] at ih ⊢
              exact ⟨ih.1, All2.append hall' ih.2⟩

/-- the hidden variables of a later part are still unbound in an answer of an earlier part -/
theorem Ext.hUnb {st st' : St} {m lo1 hi1 lo2 hi2 : Nat} (h : Ext st m lo1 hi1 st')
    (h0 : ∀ p ∈ st.σ, ¬ (lo2 ≤ p.1 ∧ p.1 < hi2)) (hm : m < lo2) (hd : hi1 ≤ lo2) (hn : hi2 ≤ st.next) :
    ∀ p ∈ st'.σ, ¬ (lo2 ≤ p.1 ∧ p.1 < hi2) := by
  obtain ⟨_, _, Δ, e, f⟩ := h
  intro p hp
  rw [e] at hp
  rcases List.mem_append.1 hp with hp | hp
  · rcases f p hp with h | h | h <;> omega
  · exact h0 p hp

theorem size_le_list (t : Term) : ∀ ts : List Term, t ∈ ts → t.size ≤ (Term.list ts Term.nilT).size
  | [], h => by simp at h
  | x :: ts, h => by
    rw [size_list_cons]
    rcases List.mem_cons.1 h with rfl | h
    · omega
    · have := size_le_list t ts h; omega

/-- what "the reference evaluation of a call of a translated non-terminal corresponds to the
    denotation of that non-terminal" means -/
def CallSim (dyn : Dyn → St → Term → Res Out) (call : Term → St → Res SOut) : Prop :=
  ∀ f, reserved.contains f = false → ∀ (st dst : St) (x : Term) (l : List Term) (s : Nat),
    Pre st x l s 0 0 →
    Rel st s 0 0 dst (call (.app f (.cons x (.cons (.var s) .nil))) st)
      (dyn (.nt f []) dst (Term.list l Term.nilT))

theorem tr_notThen (b : Body) (hb : b.simple = true) (hi : b.isIfthen = false) (i o : Term) (n : Nat) :
    notThen (b.tr i o n).1 := by
  intro c t
  cases b with
  | nt f as =>
    simp only [Body.simple, Bool.and_eq_true, List.isEmpty_iff] at hb
    obtain ⟨rfl, hf⟩ := hb
    simp only [Body.tr, List.nil_append, Term.mk, Args.ofList]
    intro h
    injection h with h1 _
    subst h1
    simp [reserved] at hf
  | ifthen c t => simp [Body.isIfthen] at hi
  | _ => simp_all [Body.simple, Body.tr, Term.a2]

theorem All2.isEmpty_eq {α β : Type} {R : α → β → Prop} {as : List α} {bs : List β} (h : All2 R as bs) :
    as.isEmpty = bs.isEmpty := by
  cases h <;> rfl

/-- changing the base of a result relation: results obtained in an answer `st'` of a first part,
    seen from the state `st` before the first part -/
theorem Rel.comp {st st' dst : St} {s m lo hi lo1 hi1 lo2 hi2 : Nat} {x : Res SOut} {y : Res Out}
    (h : Rel st' s lo2 hi2 dst x y) (hext : Ext st m lo1 hi1 st')
    (hm : lo ≤ m ∧ m < hi) (a1 : lo ≤ lo1) (a2 : hi1 ≤ hi) (b1 : lo ≤ lo2) (b2 : hi2 ≤ hi) :
    Rel st s lo hi dst x y := by
  cases x <;> cases y <;> simp_all [Rel]
  refine h.2.imp (fun st'' a h => ?_)
  obtain ⟨f1, r', f2, f4, f5⟩ := h
  exact ⟨f1, r', f2, f4, hext.comp f5 hm a1 a2 b1 b2⟩

/-- the step `S0 = S` that ends the translation of every non-consuming construct -/
theorem eq_step (uf : Nat) (huf : 1 ≤ uf) (call : Term → St → Res SOut) {st : St} {x : Term} {l : List Term}
    {s lo hi : Nat} (P : Pre st x l s lo hi) (dst : St) :
    solveGoal uf call (Term.a2 "=" x (.var s)) st =
        .ok ⟨[{ st with σ := (s, walk st.σ x) :: st.σ }], false⟩ ∧
      AnsRel st s lo hi dst { st with σ := (s, walk st.σ x) :: st.σ } (dst, Term.list l Term.nilT) := by
  obtain ⟨k, hk⟩ : ∃ k, uf = k + 1 := ⟨uf - 1, by omega⟩
  constructor
  · rw [solveGoal_eq, hk, unify_nonvar_var k st.σ x _ s rfl P.inp.walk_nonvar P.sUnb]
  · exact ⟨rfl, l, rfl, Denotes.of_bind s P.inp.walked P.inp.walk_nonvar P.sUnb,
      Ext.refl_bind st s _ _ _ P.sLt P.wf⟩

/-- `G, S0 = S` where `G` left the state alone (`keep`) or failed, and possibly cut (`c`) -/
theorem conj_eq_tail (uf : Nat) (huf : 1 ≤ uf) (call : Term → St → Res SOut) {st : St} {x : Term}
    {l : List Term} {s lo hi : Nat} (P : Pre st x l s lo hi) (dst : St) (c keep : Bool) :
    Rel st s lo hi dst
      (match sAndThen (fun st' => solveGoal uf call (Term.a2 "=" x (.var s)) st') (if keep then [st] else []) with
       | .error e => .error e
       | .ok ob => .ok ⟨ob.answers, c || ob.cut⟩)
      (.ok ⟨if keep then [(dst, Term.list l Term.nilT)] else [], c⟩) := by
  obtain ⟨h1, h2⟩ := eq_step uf huf call P dst
  cases keep with
  | false => simp [sAndThen, Rel]; exact .nil
  | true =>
    simp only [if_true, sAndThen, h1, Bool.false_eq_true, if_false, Rel, List.append_nil, Bool.or_false]
    exact ⟨trivial, .cons h2 .nil⟩

/-- **bodies**: given the correspondence for calls, the reference evaluation of a translated
    simple body corresponds to the denotation of the body -/
theorem body_sim (cfg : Cfg) (hcfg : cfg.engine = false) (huf : 1 ≤ cfg.uf)
    (dyn : Dyn → St → Term → Res Out) (call : Term → St → Res SOut) (H : CallSim dyn call) :
    ∀ (b : Body), b.simple = true → b.need ≤ cfg.uf →
      ∀ (top : Bool) (st dst : St) (x : Term) (l : List Term) (s m : Nat),
        Pre st x l s m (m + b.nhid) →
        Rel st s m (m + b.nhid) dst (solveGoal cfg.uf call (b.tr x (.var s) m).1 st)
          (denBody cfg dyn top b dst (Term.list l Term.nilT)) := by
  intro b
  induction b with
  | eps =>
    intro _ _ top st dst x l s m P
    obtain ⟨h1, h2⟩ := eq_step cfg.uf huf call P dst
    simp only [Body.tr, h1, denBody, Rel]
    exact ⟨trivial, .cons h2 .nil⟩
  | terminals ts =>
    intro hs hn top st dst x l s m P
    simp only [Body.simple, List.all_eq_true] at hs
    simp only [Body.need] at hn
    simp only [Body.tr, solveGoal_eq, denBody]
    rw [consume_ground cfg.uf dst ts l P.inp.ground hs (fun t ht => Nat.le_trans (size_le_list t ts ht) hn)]
    obtain ⟨hnone, hsome⟩ := unify_terminals_den s ts cfg.uf st.σ x l P.inp hs P.sUnb hn
    cases hsp : stripPrefix ts l with
    | none => rw [hnone hsp]; exact ⟨rfl, .nil⟩
    | some l' =>
      obtain ⟨t', e1, e2, e3⟩ := hsome l' hsp
      rw [e1]
      refine ⟨rfl, .cons ⟨rfl, l', rfl, ?_, ?_⟩ .nil⟩
      · exact Denotes.of_bind s e3 e2 P.sUnb
      · exact Ext.refl_bind st s _ _ _ P.sLt P.wf
  | nt f as =>
    intro hs _ top st dst x l s m P
    simp only [Body.simple, Bool.and_eq_true, List.isEmpty_iff, Bool.not_eq_true'] at hs
    obtain ⟨rfl, hf⟩ := hs
    have hg : (Body.tr (.nt f []) x (.var s) m).1 = .app f (.cons x (.cons (.var s) .nil)) := rfl
    rw [hg, solveGoal_user _ _ _ _ _ _ hf]
    simp only [denBody]
    have P0 : Pre st x l s 0 0 :=
      ⟨P.inp, P.sUnb, fun _ _ h => by omega, P.sLt, Nat.zero_le _, fun h => by omega, P.wf⟩
    exact (H f hf st dst x l s P0).mono (fun v h1 h2 => by omega)
  | seq a b iha ihb =>
    intro hs hn top st dst x l s m P
    simp only [Body.simple, Bool.and_eq_true] at hs
    simp only [Body.need] at hn
    simp only [Body.nhid] at P ⊢
    simp only [Body.tr, tr_next, solveGoal_conj, denBody]
    have Pa : Pre st x l m (m + 1) (m + 1 + a.nhid) :=
      ⟨P.inp, fun p hp h => P.hUnb p hp (by omega), fun p hp h => P.hUnb p hp (by omega),
        by have := P.hiLe; omega, by have := P.hiLe; omega, fun h => by omega, P.wf⟩
    have ra := iha hs.1 (by omega) false st dst x l m (m + 1) Pa
    cases hxa : solveGoal cfg.uf call (a.tr x (.var m) (m + 1)).1 st with
    | error e =>
      cases hya : denBody cfg dyn false a dst (Term.list l Term.nilT) with
      | error e' => simp [Rel]
      | ok od => simp [hxa, hya, Rel] at ra
    | ok oa =>
      cases hya : denBody cfg dyn false a dst (Term.list l Term.nilT) with
      | error e' => simp [hxa, hya, Rel] at ra
      | ok od =>
        simp only [hxa, hya, Rel] at ra
        obtain ⟨c1, hall⟩ := ra
        have hsm : s ≠ m := fun h => P.sOut (by omega)
        have key := seq_sim (s := s) (lo := m) (hi := m + (a.nhid + b.nhid + 1))
          (lo2 := m + 1 + a.nhid) (hi2 := m + 1 + a.nhid + b.nhid)
          (fun st' => solveGoal cfg.uf call (b.tr (.var m) (.var s) (m + 1 + a.nhid)).1 st')
          (fun st' l' => denBody cfg dyn false b st' l')
          (fun st' r hext hw => by
            have Pb : Pre st' (.var m) r s (m + 1 + a.nhid) (m + 1 + a.nhid + b.nhid) :=
              ⟨hw,
               hext.unbound s P.sUnb hsm (fun h => P.sOut (by omega)) P.sLt,
               hext.hUnb (fun p hp h => P.hUnb p hp (by omega)) (by omega) (Nat.le_refl _)
                 (by have := P.hiLe; omega),
               by have := hext.1; have := P.sLt; omega,
               by have := hext.1; have := P.hiLe; omega,
               fun h => P.sOut (by omega),
               hext.2.1⟩
            exact ihb hs.2 (by omega) false st' dst (.var m) r s (m + 1 + a.nhid) Pb)
          (by omega) (by omega) (by omega) (by omega) (by omega) hall
        cases hxb : sAndThen (fun st' => solveGoal cfg.uf call (b.tr (.var m) (.var s) (m + 1 + a.nhid)).1 st') oa.answers with
        | error e =>
          cases hyb : andThen (fun st' l' => denBody cfg dyn false b st' l') od.answers with
          | error e' => simp [hxb, hyb, Rel]
          | ok odb => simp [hxb, hyb, Rel] at key
        | ok ob =>
          cases hyb : andThen (fun st' l' => denBody cfg dyn false b st' l') od.answers with
          | error e' => simp [hxb, hyb, Rel] at key
          | ok odb =>
            simp only [hxb, hyb, Rel] at key ⊢
            exact ⟨by rw [c1, key.1], key.2⟩
  | alt a b iha ihb =>
    intro hs hn top st dst x l s m P
    simp only [Body.simple, Bool.and_eq_true, Bool.not_eq_true'] at hs
    simp only [Body.need] at hn
    simp only [Body.nhid] at P ⊢
    simp only [Body.tr, tr_next, denBody, hcfg, Bool.false_and, Bool.false_eq_true, if_false]
    rw [solveGoal_disj _ _ _ _ _ (tr_notThen a hs.1.1 hs.2 _ _ _)]
    have Pa : Pre st x l s m (m + a.nhid) :=
      ⟨P.inp, P.sUnb, fun p hp h => P.hUnb p hp (by omega), P.sLt,
        by have := P.hiLe; omega, fun h => P.sOut (by omega), P.wf⟩
    have Pb : Pre st x l s (m + a.nhid) (m + a.nhid + b.nhid) :=
      ⟨P.inp, P.sUnb, fun p hp h => P.hUnb p hp (by omega), P.sLt,
        by have := P.hiLe; omega, fun h => P.sOut (by omega), P.wf⟩
    have ra := (iha hs.1.1 (by omega) false st dst x l s m Pa).mono
      (lo' := m) (hi' := m + (a.nhid + b.nhid)) (fun v h1 h2 => by omega)
    have rb := (ihb hs.1.2 (by omega) true st dst x l s (m + a.nhid) Pb).mono
      (lo' := m) (hi' := m + (a.nhid + b.nhid)) (fun v h1 h2 => by omega)
    cases hxa : solveGoal cfg.uf call (a.tr x (.var s) m).1 st with
    | error e =>
      cases hya : denBody cfg dyn false a dst (Term.list l Term.nilT) with
      | error e' => simp [Rel]
      | ok od => simp [hxa, hya, Rel] at ra
    | ok oa =>
      cases hya : denBody cfg dyn false a dst (Term.list l Term.nilT) with
      | error e' => simp [hxa, hya, Rel] at ra
      | ok od =>
        simp only [hxa, hya, Rel] at ra
        obtain ⟨c1, halla⟩ := ra
        by_cases hc : oa.cut = true
        · have hc' : od.cut = true := c1 ▸ hc
          simp only [hc, hc', if_true, Rel]
          exact ⟨trivial, halla⟩
        · have hc0 : oa.cut = false := by simpa using hc
          have hc' : od.cut = false := c1 ▸ hc0
          simp only [hc0, hc', Bool.false_eq_true, if_false]
          cases hxb : solveGoal cfg.uf call (b.tr x (.var s) (m + a.nhid)).1 st with
          | error e =>
            cases hyb : denBody cfg dyn true b dst (Term.list l Term.nilT) with
            | error e' => simp [Rel]
            | ok odb => simp [hxb, hyb, Rel] at rb
          | ok ob =>
            cases hyb : denBody cfg dyn true b dst (Term.list l Term.nilT) with
            | error e' => simp [hxb, hyb, Rel] at rb
            | ok odb =>
              simp only [hxb, hyb, Rel] at rb ⊢
              exact ⟨rb.1, halla.append rb.2⟩
  | ite c t e ihc iht ihe =>
    intro hs hn top st dst x l s m P
    simp only [Body.simple, Bool.and_eq_true] at hs
    simp only [Body.need] at hn
    simp only [Body.nhid] at P ⊢
    simp only [Body.tr, tr_next, solveGoal_ite, denBody, hcfg, Bool.false_eq_true, if_false]
    have Pc : Pre st x l m (m + 1) (m + 1 + c.nhid) :=
      ⟨P.inp, fun p hp h => P.hUnb p hp (by omega), fun p hp h => P.hUnb p hp (by omega),
        by have := P.hiLe; omega, by have := P.hiLe; omega, fun h => by omega, P.wf⟩
    have rc := ihc hs.1.1 (by omega) true st dst x l m (m + 1) Pc
    cases hxc : solveGoal cfg.uf call (c.tr x (.var m) (m + 1)).1 st with
    | error err =>
      cases hyc : denBody cfg dyn true c dst (Term.list l Term.nilT) with
      | error e' => simp [Rel]
      | ok od => simp [hxc, hyc, Rel] at rc
    | ok oc =>
      cases hyc : denBody cfg dyn true c dst (Term.list l Term.nilT) with
      | error e' => simp [hxc, hyc, Rel] at rc
      | ok od =>
        simp only [hxc, hyc, Rel] at rc
        obtain ⟨_, hall⟩ := rc
        cases hA : oc.answers with
        | nil =>
          rw [hA] at hall
          cases hD : od.answers with
          | cons d ds => rw [hD] at hall; cases hall
          | nil =>
            simp only [hA, hD]
            have Pe : Pre st x l s (m + 1 + c.nhid + t.nhid) (m + 1 + c.nhid + t.nhid + e.nhid) :=
              ⟨P.inp, P.sUnb, fun p hp h => P.hUnb p hp (by omega), P.sLt,
                by have := P.hiLe; omega, fun h => P.sOut (by omega), P.wf⟩
            exact (ihe hs.2 (by omega) true st dst x l s (m + 1 + c.nhid + t.nhid) Pe).mono
              (fun v h1 h2 => by omega)
        | cons st' rest =>
          rw [hA] at hall
          cases hD : od.answers with
          | nil => rw [hD] at hall; cases hall
          | cons d ds =>
            rw [hD] at hall
            cases hall with
            | cons hr _ =>
              obtain ⟨sa, ra⟩ := d
              obtain ⟨e1, r, e2, hw, hext⟩ := hr
              simp only at e1 e2
              subst e1 e2
              simp only [hA, hD]
              have hsm : s ≠ m := fun h => P.sOut (by omega)
              have Pt : Pre st' (.var m) r s (m + 1 + c.nhid) (m + 1 + c.nhid + t.nhid) :=
                ⟨hw,
                 hext.unbound s P.sUnb hsm (fun h => P.sOut (by omega)) P.sLt,
                 hext.hUnb (fun p hp h => P.hUnb p hp (by omega)) (by omega) (Nat.le_refl _)
                   (by have := P.hiLe; omega),
                 by have := hext.1; have := P.sLt; omega,
                 by have := hext.1; have := P.hiLe; omega,
                 fun h => P.sOut (by omega),
                 hext.2.1⟩
              exact (iht hs.1.2 (by omega) true st' sa (.var m) r s (m + 1 + c.nhid) Pt).comp
                (lo := m) (hi := m + (c.nhid + t.nhid + e.nhid + 1)) hext
                (by omega) (by omega) (by omega) (by omega) (by omega)
  | ifthen c t ihc iht =>
    intro hs hn top st dst x l s m P
    simp only [Body.simple, Bool.and_eq_true] at hs
    simp only [Body.need] at hn
    simp only [Body.nhid] at P ⊢
    simp only [Body.tr, tr_next, solveGoal_ifthen, denBody, hcfg, Bool.false_eq_true, if_false]
    have Pc : Pre st x l m (m + 1) (m + 1 + c.nhid) :=
      ⟨P.inp, fun p hp h => P.hUnb p hp (by omega), fun p hp h => P.hUnb p hp (by omega),
        by have := P.hiLe; omega, by have := P.hiLe; omega, fun h => by omega, P.wf⟩
    have rc := ihc hs.1 (by omega) true st dst x l m (m + 1) Pc
    cases hxc : solveGoal cfg.uf call (c.tr x (.var m) (m + 1)).1 st with
    | error err =>
      cases hyc : denBody cfg dyn true c dst (Term.list l Term.nilT) with
      | error e' => simp [Rel]
      | ok od => simp [hxc, hyc, Rel] at rc
    | ok oc =>
      cases hyc : denBody cfg dyn true c dst (Term.list l Term.nilT) with
      | error e' => simp [hxc, hyc, Rel] at rc
      | ok od =>
        simp only [hxc, hyc, Rel] at rc
        obtain ⟨_, hall⟩ := rc
        cases hA : oc.answers with
        | nil =>
          rw [hA] at hall
          cases hD : od.answers with
          | cons d ds => rw [hD] at hall; cases hall
          | nil => simp only [hA, hD, Rel]; exact ⟨trivial, .nil⟩
        | cons st' rest =>
          rw [hA] at hall
          cases hD : od.answers with
          | nil => rw [hD] at hall; cases hall
          | cons d ds =>
            rw [hD] at hall
            cases hall with
            | cons hr _ =>
              obtain ⟨sa, ra⟩ := d
              obtain ⟨e1, r, e2, hw, hext⟩ := hr
              simp only at e1 e2
              subst e1 e2
              simp only [hA, hD]
              have hsm : s ≠ m := fun h => P.sOut (by omega)
              have Pt : Pre st' (.var m) r s (m + 1 + c.nhid) (m + 1 + c.nhid + t.nhid) :=
                ⟨hw,
                 hext.unbound s P.sUnb hsm (fun h => P.sOut (by omega)) P.sLt,
                 hext.hUnb (fun p hp h => P.hUnb p hp (by omega)) (by omega) (Nat.le_refl _)
                   (by have := P.hiLe; omega),
                 by have := hext.1; have := P.sLt; omega,
                 by have := hext.1; have := P.hiLe; omega,
                 fun h => P.sOut (by omega),
                 hext.2.1⟩
              exact (iht hs.2 (by omega) true st' sa (.var m) r s (m + 1 + c.nhid) Pt).comp
                (lo := m) (hi := m + (c.nhid + t.nhid + 1)) hext
                (by omega) (by omega) (by omega) (by omega) (by omega)
  | block g =>
    intro hs _ top st dst x l s m P
    simp only [Body.simple, blockGoal, Bool.or_eq_true, beq_iff_eq] at hs
    simp only [Body.tr, solveGoal_conj, denBody]
    rcases hs with ((rfl | rfl) | rfl) | rfl
    · simpa [solveGoal_true, evalBlock] using conj_eq_tail cfg.uf huf call P dst false true
    · simpa [solveGoal_fail, evalBlock] using conj_eq_tail cfg.uf huf call P dst false false
    · simpa [solveGoal_false, evalBlock] using conj_eq_tail cfg.uf huf call P dst false false
    · simpa [solveGoal_cut, evalBlock] using conj_eq_tail cfg.uf huf call P dst true true
  | not b ih =>
    intro hs hn top st dst x l s m P
    simp only [Body.simple] at hs
    simp only [Body.need] at hn
    simp only [Body.nhid] at P ⊢
    simp only [Body.tr, solveGoal_conj, solveGoal_not, denBody]
    have Pb : Pre st x l m (m + 1) (m + 1 + b.nhid) :=
      ⟨P.inp, fun p hp h => P.hUnb p hp (by omega), fun p hp h => P.hUnb p hp (by omega),
        by have := P.hiLe; omega, by have := P.hiLe; omega, fun h => by omega, P.wf⟩
    have rb := ih hs hn true st dst x l m (m + 1) Pb
    cases hxb : solveGoal cfg.uf call (b.tr x (.var m) (m + 1)).1 st with
    | error err =>
      cases hyb : denBody cfg dyn true b dst (Term.list l Term.nilT) with
      | error e' => simp [Rel]
      | ok od => simp [hxb, hyb, Rel] at rb
    | ok ob =>
      cases hyb : denBody cfg dyn true b dst (Term.list l Term.nilT) with
      | error e' => simp [hxb, hyb, Rel] at rb
      | ok od =>
        simp only [hxb, hyb, Rel] at rb
        have hemp := rb.2.isEmpty_eq
        simp only [← hemp]
        simpa using conj_eq_tail cfg.uf huf call P dst false ob.answers.isEmpty
  | cut =>
    intro _ _ top st dst x l s m P
    simp only [Body.tr, solveGoal_conj, solveGoal_cut, denBody]
    simpa using conj_eq_tail cfg.uf huf call P dst true true
  | _ => intro hs; simp [Body.simple] at hs

end PrologVerif.Grammar
