/-
  C16 `text_is_chars`: on the UTF-8 bytes of a text, Go's `range` loop and `[]rune` conversion see
  exactly the code points.
-/
import PrologVerif.Model.Utf8
namespace PrologVerif.Utf8

theorem encode_cons (c : Char) (cs : List Char) : encode (c :: cs) = String.utf8EncodeChar c ++ encode cs := by
  simp [encode]

theorem encode_append (a b : List Char) : encode (a ++ b) = encode a ++ encode b := by
  simp [encode]

theorem decodeRune_encode (c : Char) (rest : List UInt8) :
    decodeRune (String.utf8EncodeChar c ++ rest) = (c, c.utf8Size) := by
  simp [decodeRune, List.toByteArray_append, ByteArray.utf8DecodeChar?_utf8EncodeChar_append]

theorem length_encode_le (cs : List Char) : cs.length ≤ (encode cs).length := by
  induction cs with
  | nil => simp [encode]
  | cons c cs ih =>
    rw [encode_cons, List.length_append, String.length_utf8EncodeChar]
    have := c.utf8Size_pos
    simp; omega

theorem encodeChar_ne_nil (c : Char) : String.utf8EncodeChar c ≠ [] := by
  intro h
  have := String.length_utf8EncodeChar c
  rw [h] at this
  have := c.utf8Size_pos
  simp at *

/-- `[]rune(s)` of the encoding of a text is the text -/
theorem runes_encode : (f : Nat) → (cs : List Char) → cs.length ≤ f → runes f (encode cs) = cs
  | _, [], _ => by
    simp only [encode, List.flatMap_nil]
    unfold runes
    split <;> simp_all
  | 0, _ :: _, h => by simp at h
  | f + 1, c :: cs, h => by
    rw [encode_cons]
    cases hb : String.utf8EncodeChar c ++ encode cs with
    | nil => exact absurd (List.append_eq_nil_iff.mp hb).1 (encodeChar_ne_nil c)
    | cons b bs =>
      unfold runes
      simp only
      rw [← hb, decodeRune_encode]
      simp only
      rw [List.drop_left' (String.length_utf8EncodeChar c)]
      rw [runes_encode f cs (by simpa using h)]

/-- `for i := range s` over the encoding of a text visits the offsets of its code points -/
theorem rangeStarts_encode : (f : Nat) → (cs : List Char) → (off : Nat) → cs.length ≤ f →
    rangeStarts f (encode cs) off = (List.range cs.length).map fun k => off + (encode (cs.take k)).length
  | _, [], _, _ => by
    simp only [encode, List.flatMap_nil]
    unfold rangeStarts
    split <;> simp_all
  | 0, _ :: _, _, h => by simp at h
  | f + 1, c :: cs, off, h => by
    rw [encode_cons]
    cases hb : String.utf8EncodeChar c ++ encode cs with
    | nil => exact absurd (List.append_eq_nil_iff.mp hb).1 (encodeChar_ne_nil c)
    | cons b bs =>
      unfold rangeStarts
      simp only
      rw [← hb, decodeRune_encode]
      simp only
      rw [List.drop_left' (String.length_utf8EncodeChar c)]
      rw [rangeStarts_encode f cs _ (by simpa using h)]
      simp only [List.length_cons, List.range_succ_eq_map, List.map_cons, List.take_zero, List.map_map]
      congr 1
      · simp [encode]
        intro a _
        omega

/-- taking / dropping bytes at the offset of the k-th code point = taking / dropping k code points -/
theorem take_encode (cs : List Char) (k : Nat) :
    (encode cs).take (encode (cs.take k)).length = encode (cs.take k) ∧
    (encode cs).drop (encode (cs.take k)).length = encode (cs.drop k) := by
  have : encode cs = encode (cs.take k) ++ encode (cs.drop k) := by
    rw [← encode_append, List.take_append_drop]
  constructor
  · conv => lhs; rw [this]
    exact List.take_left' rfl
  · conv => lhs; rw [this]
    exact List.drop_left' rfl

/-- the encoding is injective: a byte string names one text -/
theorem encode_inj {a b : List Char} (h : encode a = encode b) : a = b := by
  have ha := runes_encode (max a.length b.length) a (Nat.le_max_left _ _)
  have hb := runes_encode (max a.length b.length) b (Nat.le_max_right _ _)
  rw [h] at ha
  exact ha.symm.trans hb

end PrologVerif.Utf8
