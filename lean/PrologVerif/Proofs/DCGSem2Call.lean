/-
  Proofs/DCGSem2Call — calls: resolving a translated non-terminal WITH ARGUMENTS against the
  translated rules corresponds to trying the rules in the denotation.  Head unification (the call's
  arguments with the renamed head's, then the two hidden arguments) versus `unifyList` of the
  arguments; the two variable supplies are aligned through the correspondence of the renamed rule
  variables (`World.addVars`); push-back; call//N; the induction on the fuel.
-/
import PrologVerif.Proofs.DCGSem2Late
namespace PrologVerif.Grammar
open PrologVerif

/-! ### `S = t` with `S` an untouched variable on the left -/

theorem unify_var_any (k : Nat) (σ : Subst) (s : Nat) (t : Term) (hs : ∀ p ∈ σ, p.1 ≠ s)
    (hne : walk σ t ≠ .var s) : unify (k + 1) σ (.var s) t = .done (some ((s, walk σ t) :: σ)) := by
  unfold unify
  rw [walk_unbound σ s hs]
  cases h : walk σ t <;> simp_all
  rename_i w
  intro e; exact hne (by rw [e])

theorem unify_hidden_to (k : Nat) {W : World} (hW : W.Good) {t r : Term} {s : Nat} (ht : W.Eq t r)
    (hs : ¬ W.TS s) (hlt : s < W.nS) :
    ∃ W' : World, unify (k + 1) W.σS (.var s) t = .done (some W'.σS) ∧ W'.σD = W.σD ∧ W'.nS = W.nS ∧
      W'.nD = W.nD ∧ W'.Good ∧ Step W W' (fun v => v = s) ∧ W'.Eq (.var s) r := by
  have hne : walk W.σS t ≠ .var s := fun e => hs (ht.touchedS e)
  obtain ⟨g, st⟩ := World.bindS_ok hW (walk W.σS t) hs hlt
  exact ⟨W.bindS s (walk W.σS t), unify_var_any k _ s t (W.unbS hs) hne, rfl, rfl, rfl, g, st,
    World.bindS_eq hs hne (st.eq _ _ ht)⟩

theorem Eq_list {W : World} : ∀ {as bs : List Term} {t u : Term}, All2 W.Eq as bs → W.Eq t u →
    W.Eq (Term.list as t) (Term.list bs u)
  | _, _, _, _, .nil, h => h
  | _, _, _, _, .cons ha has, h => by
    rw [list_cons, list_cons, World.Eq_unfold, walk_nonvar _ _ rfl, walk_nonvar _ _ rfl]
    exact .app (.cons ha (.cons (Eq_list has h) .nil))

/-! ### head unification -/

/-- outcome of unifying a call `f(as…, x, S)` with the renamed head `f(hs…, S0', S')` on the SLD
    side and the arguments `as…` with the renamed `hs…` in the denotation.  On success: the world
    `W3` in which the rule body is run; `S0'` is the input, the rule's variables correspond, `S'`
    and everything after it is untouched, and `S` is an alias of `S'` from now on. -/
def HOut (W : World) (s nv nh : Nat) (l : Term) : Fuel (Option Subst) → Fuel (Option Subst) → Prop
  | .out, _ => True
  | .done none, .done none => True
  | .done (some σS'), .done (some σD') =>
    ∃ W3 : World, W3.σS = σS' ∧ W3.σD = σD' ∧ W3.nS = W.nS + (nv + 3 + nh) ∧ W3.nD = W.nD + nv ∧ W3.Good ∧
      Step W W3 (fun v => v = s) ∧ W3.Eq (.var (nv + W.nS)) l ∧
      (∀ v, v < nv → W3.Eq (.var (v + W.nS)) (.var (v + W.nD))) ∧
      (∀ v, nv + 1 + W.nS ≤ v → ¬ W3.TS v) ∧
      (∀ Δ, walk (Δ ++ W3.σS) (.var s) = walk (Δ ++ W3.σS) (.var (nv + 2 + W.nS)))
  | _, _ => False

theorem head_sim (uf : Nat) {W : World} (hW : W.Good) (f : String) (asS asD hargs : List Term) (nv nh : Nat)
    (hlen : asS.length = hargs.length) (hB : hargs.all (fun t => decide (boundT t ≤ nv)) = true)
    (has : All2 W.Eq asS asD) {x l : Term} (hx : W.Eq x l) {s : Nat} (hs : ¬ W.TS s) (hlt : s < W.nS) :
    HOut W s nv nh l
      (unify uf W.σS (Term.mk f (asS ++ [x, .var s]))
        (renameT W.nS (Term.mk f (hargs ++ [.var nv, .var (nv + 2)]))))
      (unifyList uf W.σD asD (hargs.map (renameT W.nD))) := by
  cases uf with
  | zero => simp only [unify]; trivial
  | succ k =>
    rw [renameT_mk2, mk_append2, mk_append2]
    unfold unify
    rw [walk_nonvar _ _ rfl, walk_nonvar _ _ rfl]
    simp only [if_true]
    rw [unifyArgs_append k asS (hargs.map (renameT W.nS)) W.σS _ _ (by simpa using hlen)]
    obtain ⟨gp, stp⟩ := World.addVars_ok (nv := nv) (cS := nv + 3 + nh) (cD := nv) hW (by omega) (Nat.le_refl _)
    have hvp : ∀ v, v < nv → (W.addVars nv (nv + 3 + nh) nv).Eq (.var (v + W.nS)) (.var (v + W.nD)) :=
      fun v hv => World.addVars_eq hW v hv
    have hh := renameL_eq hvp hargs hB
    have hu := unifyList_sim k (k + 1) (by omega) asS asD _ _ (W.addVars nv (nv + 3 + nh) nv) gp
      (has.imp (fun _ _ h => stp.eq _ _ h)) hh
    have eS : (W.addVars nv (nv + 3 + nh) nv).σS = W.σS := rfl
    have eD : (W.addVars nv (nv + 3 + nh) nv).σD = W.σD := rfl
    rw [eS, eD] at hu
    match hS : unifyList k W.σS asS (hargs.map (renameT W.nS)),
          hD : unifyList (k + 1) W.σD asD (hargs.map (renameT W.nD)), hu with
    | .out, _, _ => trivial
    | .done none, .done none, _ => trivial
    | .done (some σ1), .done (some σ1'), ⟨W1, e1, e2, e3, e4, g1, st1⟩ =>
      subst e1 e2
      simp only [Args.ofList, unifyArgsWith, renameT]
      cases k with
      | zero => simp only [unify]; trivial
      | succ k' =>
        have n1 : W1.nS = W.nS + (nv + 3 + nh) := e3
        have un1 : ∀ v, nv + W.nS ≤ v → ¬ W1.TS v := by
          intro v hv ht
          by_cases hlt' : v < W.nS + (nv + 3 + nh)
          · rcases st1.tS v ht with h | h | h
            · rcases World.addVars_TS h with h | h
              · have := hW.scS v h; omega
              · omega
            · exact h
            · have : W.nS + (nv + 3 + nh) ≤ v := h
              omega
          · have := g1.scS v ht; omega
        have hS0 : ¬ W1.TS (nv + W.nS) := un1 _ (Nat.le_refl _)
        obtain ⟨W2, e5, e6, e7, e8, g2, st2, he2⟩ :=
          unify_to_hidden k' g1 (st1.eq _ _ (stp.eq _ _ hx)) hS0 (by omega)
        rw [e5]
        simp only []
        have hs1 : ¬ W1.TS s := by
          intro ht
          rcases st1.tS s ht with h | h | h
          · rcases World.addVars_TS h with h | h
            · exact hs h
            · omega
          · exact h
          · have : W.nS + (nv + 3 + nh) ≤ s := h
            omega
        have hs2 : ¬ W2.TS s := st2.untouched hs1 (by omega) (by omega)
        have un2 : ∀ v, nv + 1 + W.nS ≤ v → ¬ W2.TS v := by
          intro v hv ht
          by_cases hlt' : v < W.nS + (nv + 3 + nh)
          · exact st2.untouched (un1 v (by omega)) (by omega) (by omega) ht
          · have := g2.scS v ht; omega
        have hS' : ¬ W2.TS (nv + 2 + W.nS) := un2 _ (by omega)
        rw [unify_var_var k' W2.σS s (nv + 2 + W.nS) (by omega) (W2.unbS hs2) (W2.unbS hS')]
        simp only []
        obtain ⟨g3, st3⟩ := World.bindS_ok g2 (.var (nv + 2 + W.nS)) hs2 (by omega)
        refine ⟨W2.bindS s (.var (nv + 2 + W.nS)), rfl, ?_, ?_, ?_, g3, ?_, st3.eq _ _ he2, ?_, ?_, ?_⟩
        · show W2.σD = W1.σD; exact e6
        · show W2.nS = _; omega
        · show W2.nD = _; rw [e8, e4]; rfl
        · have A : Step W W1 (fun _ => False) := stp.trans st1 (fun _ h => h) (fun _ h => h)
          have B : Step W W2 (fun _ => False) :=
            A.trans' st2 (fun _ h => h) (fun v (h : v = nv + W.nS) => .inr (by omega))
          exact B.trans' st3 (fun _ h => h.elim) (fun v h => .inl h)
        · intro v hv
          exact st3.eq _ _ (st2.eq _ _ (st1.eq _ _ (hvp v hv)))
        · intro v hv ht
          by_cases hlt' : v < W.nS + (nv + 3 + nh)
          · exact st3.untouched (un2 v hv) (by omega) (by omega) ht
          · have := g3.scS v ht
            have : (W2.bindS s (.var (nv + 2 + W.nS))).nS = W2.nS := rfl
            omega
        · intro Δ
          show walk (Δ ++ (s, .var (nv + 2 + W.nS)) :: W2.σS) _ = walk (Δ ++ (s, .var (nv + 2 + W.nS)) :: W2.σS) _
          rw [walk_append, walk_append, walk_bind _ _ _ (W2.unbS hs2)]
          rw [walk_bind_other _ _ _ _ (by rw [W2.walkS_untouched hS']; intro e; injection e; omega),
            W2.walkS_untouched hS']

/-! ### one rule -/

/-- rules of the fragment: the name does not clash, the body is in the fragment, the variables of
    the rule are below `nv` -/
def GoodRuleW (strict : Bool) (r : Rule) : Prop :=
  special r.name r.args.length = false ∧ r.body.ok strict = true ∧ r.wf = true

/-- the statement at one fuel level -/
def LevelW (strict : Bool) (cfg : Cfg) (gr : Grammar) (n : Nat) : Prop :=
  ∀ (bS : Body), bS.ok strict = true → ∀ (bD : Body) (W : World), BodyRel W.Eq bS bD →
    ∀ (top : Bool) (x l : Term) (s m : Nat), PreW W x l s m (m + bS.nhid) →
      RelW strict W (Fr s m (m + bS.nhid)) s (solve cfg.uf (programOf gr) n (bS.tr x (.var s) m).1 W.stS)
        (den cfg gr n top bD W.stD l)

/-- `S = t` closing a clause with push-back -/
theorem pushStepG (strict : Bool) (uf : Nat) (call : Term → St → Res SOut) {W : World} {t r : Term} {s : Nat}
    (hW : W.Good) (ht : W.Eq t r) (hs : ¬ W.TS s) (hlt : s < W.nS) :
    RelG strict W (fun v => v = s) (fun W' r' => W'.Eq (.var s) r')
      (solveGoal uf call (Term.a2 "=" (.var s) t) W.stS) (.ok ⟨[(W.stD, r)], false⟩) := by
  rw [solveGoal_eq]
  cases uf with
  | zero => simp only [unify]; exact fun _ => rfl
  | succ k =>
    obtain ⟨W', e, e1, e2, e3, g, st, he⟩ := unify_hidden_to k hW ht hs hlt
    simp only [World.stS] at e ⊢
    rw [e]
    refine ⟨rfl, .cons ⟨W', ?_, ?_, g, st, he⟩ .nil⟩
    · simp [World.stS, e2]
    · simp [World.stD, e1, e3]

theorem andThen_map (f : Term → Term) : ∀ Ds : List (St × Term),
    andThen (fun st' r => .ok ⟨[(st', f r)], false⟩) Ds = .ok ⟨Ds.map (fun a => (a.1, f a.2)), false⟩
  | [] => rfl
  | (st, r) :: Ds => by simp [andThen, andThen_map f Ds]

/-- an answer obtained inside the clause, seen from the caller: `S` is an alias of `S'` -/
theorem AnsG.to_caller {W W3 : World} {s s' : Nat} {Q : Nat → Prop} {st' : St} {a : St × Term}
    (h : AnsG W3 Q (fun W' r => W'.Eq (.var s') r) st' a) (st : Step W W3 (fun v => v = s))
    (hQ : ∀ v, Q v → W.nS ≤ v)
    (alias : ∀ Δ, walk (Δ ++ W3.σS) (.var s) = walk (Δ ++ W3.σS) (.var s')) :
    AnsW W (fun v => v = s) s st' a := by
  obtain ⟨W', e1, e2, g, st2, he⟩ := h
  obtain ⟨Δ, eΔ⟩ := st2.extS
  refine ⟨W', e1, e2, g, st.trans' st2 (fun _ h => h) (fun v h => .inr (hQ v h)), ?_⟩
  exact World.Eq.of_walk he (by rw [eΔ]; exact alias Δ) rfl

theorem RelG.to_caller {strict : Bool} {W W3 : World} {s s' : Nat} {Q : Nat → Prop} {rS : Res SOut} {rD : Res Out}
    (h : RelG strict W3 Q (fun W' r => W'.Eq (.var s') r) rS rD) (st : Step W W3 (fun v => v = s))
    (hQ : ∀ v, Q v → W.nS ≤ v)
    (alias : ∀ Δ, walk (Δ ++ W3.σS) (.var s) = walk (Δ ++ W3.σS) (.var s')) :
    RelW strict W (fun v => v = s) s rS rD := by
  cases rS <;> cases rD <;> simp_all [RelG, RelW]
  exact h.2.imp (fun _ _ h => h.to_caller st hQ alias)

/-- what the denotation makes of one rule whose head has been unified -/
def denRule (cfg : Cfg) (gr : Grammar) (n : Nat) (r : Rule) (off : Nat) (st : St) (l : Term) : Res Out :=
  match den cfg gr n r.pushback.isNone (r.body.rename off) st l with
  | .error e => .error e
  | .ok o => .ok ⟨match r.pushback with
      | none => o.answers
      | some pb => o.answers.map (fun a => (a.1, Term.list (pb.map (renameT off)) a.2)), o.cut⟩

theorem rule_simW (strict : Bool) (cfg : Cfg) (gr : Grammar) (n : Nat) (L : LevelW strict cfg gr n)
    (r : Rule) (hr : GoodRuleW strict r) {W W3 : World} {s : Nat} {l : Term}
    (n3 : W3.nS = W.nS + (r.nv + 3 + r.body.nhid)) (g3 : W3.Good) (st : Step W W3 (fun v => v = s))
    (hin : W3.Eq (.var (r.nv + W.nS)) l)
    (hv : ∀ v, v < r.nv → W3.Eq (.var (v + W.nS)) (.var (v + W.nD)))
    (un : ∀ v, r.nv + 1 + W.nS ≤ v → ¬ W3.TS v)
    (alias : ∀ Δ, walk (Δ ++ W3.σS) (.var s) = walk (Δ ++ W3.σS) (.var (r.nv + 2 + W.nS))) :
    RelW strict W (fun v => v = s) s
      (solve cfg.uf (programOf gr) n (renameT W.nS r.clause.body) W3.stS)
      (denRule cfg gr n r W.nD W3.stD l) := by
  obtain ⟨_, hok, hwf⟩ := hr
  simp only [Rule.wf, Bool.and_eq_true] at hwf
  obtain ⟨⟨_, hpbwf⟩, hbwf⟩ := hwf
  have hokS : (r.body.rename W.nS).ok strict = true := by rw [ok_rename]; exact hok
  have hrel : BodyRel W3.Eq (r.body.rename W.nS) (r.body.rename W.nD) := rename_bodyRel hv r.body hbwf
  rw [clause_eq]
  unfold denRule
  cases hpb : r.pushback with
  | none =>
    simp only [Option.isNone_none]
    rw [tr_renameG]
    simp only [renameT]
    have P : PreW W3 (.var (r.nv + W.nS)) l (r.nv + 2 + W.nS) (r.nv + 3 + W.nS)
        (r.nv + 3 + W.nS + (r.body.rename W.nS).nhid) :=
      ⟨g3, hin, un _ (by omega), by omega, fun v h1 _ => un v (by omega), by rw [rename_nhid]; omega,
        fun h => by omega⟩
    have hL := L _ hokS _ W3 hrel true _ l _ _ P
    have : (match den cfg gr n true (r.body.rename W.nD) W3.stD l with
        | .error e => .error e
        | .ok o => .ok ⟨o.answers, o.cut⟩) = den cfg gr n true (r.body.rename W.nD) W3.stD l := by
      cases den cfg gr n true (r.body.rename W.nD) W3.stD l <;> rfl
    rw [this]
    exact RelG.to_caller hL st (fun v hv => by rcases hv with h | h <;> omega) alias
  | some pb =>
    simp only [Option.isNone_some]
    rw [hpb] at hpbwf
    rw [renameT_a2, renameT_a2, renameT_list, tr_renameG]
    simp only [renameT]
    cases n with
    | zero => simp [solve, den]; trivial
    | succ n' =>
      have hsolve : ∀ g st', solve cfg.uf (programOf gr) (n' + 1) g st' = solveGoal cfg.uf _ g st' :=
        fun g st' => rfl
      rw [hsolve, solveGoal_conj']
      simp only [← hsolve]
      have P : PreW W3 (.var (r.nv + W.nS)) l (r.nv + 1 + W.nS) (r.nv + 3 + W.nS)
          (r.nv + 3 + W.nS + (r.body.rename W.nS).nhid) :=
        ⟨g3, hin, un _ (by omega), by omega, fun v h1 _ => un v (by omega), by rw [rename_nhid]; omega,
          fun h => by omega⟩
      have hL := L _ hokS _ W3 hrel false _ l _ _ P
      have key := conjG (Q := fun v => r.nv + 1 + W.nS ≤ v) (P2 := fun v => v = r.nv + 2 + W.nS)
        (φ2 := fun W' r' => W'.Eq (.var (r.nv + 2 + W.nS)) r') hL
        (fun st' => solve cfg.uf (programOf gr) (n' + 1)
          (Term.a2 "=" (.var (r.nv + 2 + W.nS)) (Term.list (pb.map (renameT W.nS)) (.var (r.nv + 1 + W.nS)))) st')
        (fun st' r' => .ok ⟨[(st', Term.list (pb.map (renameT W.nD)) r')], false⟩)
        (fun W' r' g' st' he => by
          rw [hsolve]
          refine pushStepG strict cfg.uf _ g' ?_ ?_ ?_
          · exact Eq_list (renameL_eq (fun v hv' => st'.eq _ _ (hv v hv')) pb hpbwf) he
          · refine st'.untouched (un _ (by omega)) ?_ (by omega)
            rintro (h | h) <;> omega
          · have := st'.nS; omega)
        (fun v h => by rcases h with h | h <;> omega) (fun v h => by omega)
      have hd : dConj (den cfg gr (n' + 1) false (r.body.rename W.nD) W3.stD l)
            (fun st' r' => .ok ⟨[(st', Term.list (pb.map (renameT W.nD)) r')], false⟩) =
          (match den cfg gr (n' + 1) false (r.body.rename W.nD) W3.stD l with
           | .error e => .error e
           | .ok o => .ok ⟨o.answers.map (fun a => (a.1, Term.list (pb.map (renameT W.nD)) a.2)), o.cut⟩) := by
        cases den cfg gr (n' + 1) false (r.body.rename W.nD) W3.stD l with
        | error e => rfl
        | ok o => simp [dConj, andThen_map]
      rw [hd] at key
      exact RelG.to_caller key st (fun v hv => by omega) alias

/-! ### the rules in order -/

def RelLW (strict : Bool) (W : World) (s : Nat) : Res (List St) → Res (List (St × Term)) → Prop
  | .ok A, .ok D => All2 (AnsW W (fun v => v = s) s) A D
  | .error e, .ok _ => strict = true → e = .fuel
  | .ok _, .error _ => strict = false
  | .error _, .error _ => True

def sTry (rS : Res SOut) (rest : Res (List St)) : Res (List St) :=
  match rS with
  | .error e => .error e
  | .ok o =>
    if o.cut then .ok o.answers
    else match rest with
      | .error e => .error e
      | .ok more => .ok (o.answers ++ more)

def dTry (rD : Res Out) (rest : Res (List (St × Term))) : Res (List (St × Term)) :=
  match rD with
  | .error e => .error e
  | .ok o =>
    if o.cut then .ok o.answers
    else match rest with
      | .error e => .error e
      | .ok more => .ok (o.answers ++ more)

theorem RelLW.errS {strict : Bool} {W : World} {s : Nat} {e : Stop}
    (h : strict = true → e = .fuel) (rD : Res (List (St × Term))) : RelLW strict W s (.error e) rD := by
  cases rD with
  | error _ => trivial
  | ok _ => exact h

theorem RelLW.errD {strict : Bool} {W : World} {s : Nat} {e : Stop}
    (h : strict = false) (rS : Res (List St)) : RelLW strict W s rS (.error e) := by
  cases rS with
  | error _ => trivial
  | ok _ => exact h

theorem tryG {strict : Bool} {W : World} {s : Nat} {rS : Res SOut} {rD : Res Out}
    {restS : Res (List St)} {restD : Res (List (St × Term))}
    (h : RelW strict W (fun v => v = s) s rS rD) (hr : RelLW strict W s restS restD) :
    RelLW strict W s (sTry rS restS) (dTry rD restD) := by
  cases rS with
  | error e =>
    cases rD with
    | error e' => trivial
    | ok od => exact RelLW.errS h _
  | ok oa =>
    cases rD with
    | error e' => exact RelLW.errD h _
    | ok od =>
      obtain ⟨c1, hall⟩ := h
      simp only [sTry, dTry]
      by_cases hc : oa.cut = true
      · have hc' : od.cut = true := c1 ▸ hc
        simp only [hc, hc', if_true]
        exact hall
      · have hc0 : oa.cut = false := by simpa using hc
        have hc' : od.cut = false := c1 ▸ hc0
        simp only [hc0, hc', Bool.false_eq_true, if_false]
        cases restS with
        | error e =>
          cases restD with
          | error e' => trivial
          | ok ob => exact hr
        | ok ob =>
          cases restD with
          | error e' => exact hr
          | ok ob' => exact hall.append hr

theorem tryClauses_cons (uf : Nat) (body : Term → St → Res SOut) (goal : Term) (st : St) (c : Clause)
    (cs : List Clause) :
    tryClauses uf body goal st (c :: cs) =
      (match unify uf st.σ goal (renameT st.next c.head) with
       | .out => .error .fuel
       | .done none => tryClauses uf body goal st cs
       | .done (some σ') =>
         sTry (body (renameT st.next c.body) ⟨σ', st.next + c.nv⟩) (tryClauses uf body goal st cs)) := by
  simp only [tryClauses]
  cases unify uf st.σ goal (renameT st.next c.head) with
  | out => rfl
  | done o =>
    cases o with
    | none => rfl
    | some σ' =>
      simp only [sTry]
      cases body (renameT st.next c.body) ⟨σ', st.next + c.nv⟩ <;> rfl

theorem tryRules_cons (cfg : Cfg) (gr : Grammar) (n : Nat) (args : List Term) (st : St) (l : Term) (r : Rule)
    (rs : List Rule) :
    tryRules cfg.uf (den cfg gr n) args st l (r :: rs) =
      (match unifyList cfg.uf st.σ args (r.args.map (renameT st.next)) with
       | .out => .error .fuel
       | .done none => tryRules cfg.uf (den cfg gr n) args st l rs
       | .done (some σ') =>
         dTry (denRule cfg gr n r st.next ⟨σ', st.next + r.nv⟩ l) (tryRules cfg.uf (den cfg gr n) args st l rs)) := by
  simp only [tryRules]
  cases unifyList cfg.uf st.σ args (r.args.map (renameT st.next)) with
  | out => rfl
  | done o =>
    cases o with
    | none => rfl
    | some σ' =>
      simp only [dTry, denRule]
      cases den cfg gr n r.pushback.isNone (r.body.rename st.next) ⟨σ', st.next + r.nv⟩ l <;> rfl

theorem rules_simW (strict : Bool) (cfg : Cfg) (gr : Grammar) (n : Nat) (L : LevelW strict cfg gr n)
    (f : String) (asS asD : List Term) {W : World} (hW : W.Good) {x l : Term} {s : Nat} (hx : W.Eq x l)
    (has : All2 W.Eq asS asD) (hs : ¬ W.TS s) (hlt : s < W.nS) :
    ∀ rules : List Rule, (∀ r ∈ rules, GoodRuleW strict r ∧ r.name = f ∧ r.args.length = asS.length) →
      RelLW strict W s
        (tryClauses cfg.uf (solve cfg.uf (programOf gr) n) (Term.mk f (asS ++ [x, .var s])) W.stS
          (rules.map Rule.clause))
        (tryRules cfg.uf (den cfg gr n) asD W.stD l rules) := by
  intro rules
  induction rules with
  | nil => intro _; exact .nil
  | cons r rs ih =>
    intro hr
    obtain ⟨hgood, hname, hlen⟩ := hr r (by simp)
    have ih' := ih (fun r' h' => hr r' (by simp [h']))
    have hwf := hgood.2.2
    simp only [Rule.wf, Bool.and_eq_true] at hwf
    rw [List.map_cons, tryClauses_cons, tryRules_cons]
    have hh := head_sim cfg.uf hW f asS asD r.args r.nv r.body.nhid hlen.symm hwf.1.1 has hx hs hlt
    have e1 : r.clause.head = Term.mk f (r.args ++ [.var r.nv, .var (r.nv + 2)]) := by rw [clause_eq, hname]
    have e2 : r.clause.nv = r.nv + 3 + r.body.nhid := by rw [clause_eq]
    rw [e1, e2]
    dsimp only [World.stS, World.stD]
    revert hh
    generalize unify cfg.uf W.σS (Term.mk f (asS ++ [x, .var s]))
      (renameT W.nS (Term.mk f (r.args ++ [.var r.nv, .var (r.nv + 2)]))) = rS
    generalize unifyList cfg.uf W.σD asD (r.args.map (renameT W.nD)) = rD
    intro hh
    cases rS with
    | out => exact RelLW.errS (fun _ => rfl) _
    | done oS =>
      cases oS with
      | none =>
        cases rD with
        | out => exact hh.elim
        | done oD =>
          cases oD with
          | none => exact ih'
          | some _ => exact hh.elim
      | some σ1 =>
        cases rD with
        | out => exact hh.elim
        | done oD =>
          cases oD with
          | none => exact hh.elim
          | some σ1' =>
            obtain ⟨W3, a1, a2, a3, a4, g3, st, hin, hv, un, alias⟩ := hh
            simp only []
            subst a1 a2
            have := rule_simW strict cfg gr n L r hgood (by rw [a3]) g3 st hin hv un alias
            have eS : W3.stS = ⟨W3.σS, W.nS + (r.nv + 3 + r.body.nhid)⟩ := by simp [World.stS, a3]
            have eD : W3.stD = ⟨W3.σD, W.nD + r.nv⟩ := by simp [World.stD, a4]
            rw [eS, eD] at this
            exact tryG this ih'

/-! ### the program of a grammar -/

theorem ofList_length : ∀ l : List Term, (Args.ofList l).length = l.length
  | [] => rfl
  | _ :: ts => by simp [Args.ofList, Args.length, ofList_length ts]

theorem filter_clausesG (gr : Grammar) (f : String) (k : Nat) :
    (programOf gr).filter (fun c => decide (sig c.head = some (f, k + 2))) =
      (gr.filter (fun r => decide (r.name = f ∧ r.args.length = k))).map Rule.clause := by
  unfold programOf
  rw [List.filter_map]
  congr 1
  apply List.filter_congr
  intro r _
  rw [Function.comp_apply, clause_eq, mk_append2]
  simp [sig, ofList_length]

theorem RelG.barrier {strict : Bool} {W : World} {P : Nat → Prop} {φ : World → Term → Prop}
    {rS : Res SOut} {rD : Res Out} (h : RelG strict W P φ rS rD) :
    RelG strict W P φ (sBarrier rS) (barrier rD) := by
  cases rS <;> cases rD <;> simp_all [RelG, sBarrier, Grammar.barrier]

theorem callH_user (uf : Nat) (prog : Program) (n : Nat) (f : String) (as : List Term) (x y : Term) (st : St)
    (hf : f ≠ "call") (hp : ¬ (f = "phrase" ∧ as.length = 1)) :
    callH uf prog n (Term.mk f (as ++ [x, y])) st =
      (if (prog.filter (fun c => decide (sig c.head = some (f, as.length + 2)))).isEmpty then
         .error (.unsupported ("unknown procedure " ++ f))
       else match tryClauses uf (solve uf prog n) (Term.mk f (as ++ [x, y])) st
           (prog.filter (fun c => decide (sig c.head = some (f, as.length + 2)))) with
         | .error e => .error e
         | .ok as => .ok ⟨as, false⟩) := by
  rw [mk_append2]
  unfold callH
  split
  · rename_i heq; injection heq with h1 _; exact absurd h1 hf
  · rename_i b s0 s heq
    injection heq with h1 h2
    have := congrArg Args.length h2
    simp [ofList_length, Args.length] at this
    exact absurd ⟨h1, by omega⟩ hp
  · simp [sig, ofList_length] <;> rfl

theorem callH_call (uf : Nat) (prog : Program) (n : Nat) (g a : Term) (rest : List Term) (x y : Term) (st : St) :
    callH uf prog n (Term.mk "call" ((g :: a :: rest) ++ [x, y])) st =
      (match addArgs (walk st.σ g) (a :: rest ++ [x, y]) with
       | some g' => sBarrier (solve uf prog n g' st)
       | none => .error (.unsupported "call/N of a non-callable term")) := by
  simp [Term.mk, Args.ofList, callH, Args.toList] <;> rfl

theorem dynH_user (cfg : Cfg) (gr : Grammar) (n : Nat) (f : String) (args : List Term) (st : St) (l : Term)
    (hf : f ≠ "call") :
    dynH cfg gr n (.nt f args) st l =
      (if (gr.filter (fun r => decide (r.name = f ∧ r.args.length = args.length))).isEmpty then
         .error (.unsupported ("no rule for " ++ f))
       else match tryRules cfg.uf (den cfg gr n) args st l
           (gr.filter (fun r => decide (r.name = f ∧ r.args.length = args.length))) with
         | .error e => .error e
         | .ok as => .ok ⟨as, false⟩) := by
  unfold dynH
  split
  · rename_i heq; injection heq with h1 _; exact absurd h1 hf
  · rename_i heq; injection heq with h1 h2; subst h1 h2; rfl
  · rename_i heq; cases heq

theorem dynH_short (cfg : Cfg) (gr : Grammar) (n : Nat) (f : String) (args : List Term) (st : St) (l : Term)
    (hf : args.length < 2) :
    dynH cfg gr n (.nt f args) st l =
      (if (gr.filter (fun r => decide (r.name = f ∧ r.args.length = args.length))).isEmpty then
         .error (.unsupported ("no rule for " ++ f))
       else match tryRules cfg.uf (den cfg gr n) args st l
           (gr.filter (fun r => decide (r.name = f ∧ r.args.length = args.length))) with
         | .error e => .error e
         | .ok as => .ok ⟨as, false⟩) := by
  unfold dynH
  split
  · rename_i heq; injection heq with h1 h2; subst h2; simp only [List.length_cons] at hf; omega
  · rename_i heq; injection heq with h1 h2; subst h1 h2; rfl
  · rename_i heq; cases heq

theorem dynH_call (cfg : Cfg) (gr : Grammar) (n : Nat) (g a : Term) (rest : List Term) (st : St) (l : Term) :
    dynH cfg gr n (.nt "call" (g :: a :: rest)) st l =
      (match walk st.σ g with
       | .atom f => den cfg gr n true (.nt f (a :: rest)) st l |> barrier
       | .app f bs => den cfg gr n true (.nt f (bs.toList ++ a :: rest)) st l |> barrier
       | _ => .error (.unsupported "call//N of a non-callable term")) := by
  simp [dynH] <;> rfl

/-- a non-terminal that clashes is an error of the denotation's handler (no rule has its name) -/
theorem dynH_special_err (cfg : Cfg) (gr : Grammar) (hgr : ∀ r ∈ gr, special r.name r.args.length = false)
    (n : Nat) : DynErr (dynH cfg gr n) := by
  intro f as h st l
  have hsp : special f as.length = true := by
    unfold ntOK at h
    split at h
    · rename_i hf; subst hf; simp [special]
    · simpa using h
  have hshort : f = "call" → as.length < 2 := by
    intro hf
    subst hf
    match as, h with
    | [], _ => simp
    | [_], _ => simp
    | _ :: _ :: _, h => simp [ntOK] at h
  have hemp : (gr.filter (fun r => decide (r.name = f ∧ r.args.length = as.length))).isEmpty = true := by
    rw [List.isEmpty_iff, List.filter_eq_nil_iff]
    intro r hr hd
    have := of_decide_eq_true hd
    have hh := hgr r hr
    rw [this.1, this.2, hsp] at hh
    cases hh
  by_cases hf : f = "call"
  · rw [dynH_short cfg gr n f as st l (hshort hf), hemp]; exact ⟨_, rfl⟩
  · rw [dynH_user cfg gr n f as st l hf, hemp]; exact ⟨_, rfl⟩

/-- a non-terminal that clashes is an error of the denotation (no rule can have its name) -/
theorem den_special_err (cfg : Cfg) (gr : Grammar) (hgr : ∀ r ∈ gr, special r.name r.args.length = false)
    (f : String) (as : List Term) (h : ntOK false f as = false) :
    ∀ (n : Nat) (top : Bool) (st : St) (l : Term), ∃ e, den cfg gr n top (.nt f as) st l = .error e := by
  have hsp : special f as.length = true := by
    unfold ntOK at h
    split at h
    · rename_i hf; subst hf; simp [special]
    · simpa using h
  have hshort : f = "call" → as.length < 2 := by
    intro hf
    subst hf
    match as, h with
    | [], _ => simp
    | [_], _ => simp
    | _ :: _ :: _, h => simp [ntOK] at h
  intro n top st l
  cases n with
  | zero => exact ⟨.fuel, rfl⟩
  | succ n =>
    rw [den_succ]
    simp only [denBody]
    have hemp : (gr.filter (fun r => decide (r.name = f ∧ r.args.length = as.length))).isEmpty = true := by
      rw [List.isEmpty_iff, List.filter_eq_nil_iff]
      intro r hr hd
      have := of_decide_eq_true hd
      have hh := hgr r hr
      rw [this.1, this.2, hsp] at hh
      cases hh
    by_cases hf : f = "call"
    · rw [dynH_short cfg gr n f as st l (hshort hf), hemp]; exact ⟨_, rfl⟩
    · rw [dynH_user cfg gr n f as st l hf, hemp]; exact ⟨_, rfl⟩

theorem argsRel_toList {R : Term → Term → Prop} {as bs : Args} (h : ArgsRel R as bs) : All2 R as.toList bs.toList := by
  induction h with
  | nil => exact .nil
  | cons r _ ih => exact .cons r ih

theorem mk_nil (f : String) : Term.mk f [] = .atom f := rfl

/-- a non-terminal known at this point (call//N after adding the arguments): by the level below -/
theorem nt_level (strict : Bool) (cfg : Cfg) (gr : Grammar) (hgr : ∀ r ∈ gr, special r.name r.args.length = false)
    (n : Nat) (ih : LevelW strict cfg gr n) (f : String) (asS asD : List Term)
    (hok : ntOK strict f asS = true ∨ (strict = false ∧ ntOK false f asS = false))
    {W : World} (hW : W.Good) {x l : Term} {s : Nat} (hx : W.Eq x l) (has : All2 W.Eq asS asD)
    (hs : ¬ W.TS s) (hlt : s < W.nS) :
    RelW strict W (fun v => v = s) s
      (sBarrier (solve cfg.uf (programOf gr) n (Term.mk f (asS ++ [x, .var s])) W.stS))
      (barrier (den cfg gr n true (.nt f asD) W.stD l)) := by
  rcases hok with hok | ⟨hstrict, hno⟩
  · have P : PreW W x l s 0 (0 + (Body.nt f asS).nhid) :=
      ⟨hW, hx, hs, hlt, fun v _ h => by simp [Body.nhid] at h, by simp [Body.nhid], fun h => by simp [Body.nhid] at h⟩
    have := ih (.nt f asS) (by simp [Body.ok, hok]) (.nt f asD) W (.nt has) true x l s 0 P
    exact (RelG.barrier this).mono (fun v h => by
      rcases h with h | h
      · exact h
      · simp [Body.nhid] at h)
  · have hlen := has.length_eq
    have hno' : ntOK false f asD = false := by
      unfold ntOK at hno ⊢
      split
      · rename_i hf
        simp only [hf, if_true] at hno
        match asS, asD, has, hno with
        | [], _, .nil, _ => rfl
        | [_], _, .cons _ .nil, _ => rfl
        | _ :: _ :: _, _, _, hno => simp at hno
      · rename_i hf
        simp only [hf, if_false] at hno
        rw [← hlen]; exact hno
    obtain ⟨e, he⟩ := den_special_err cfg gr hgr f asD hno' n true W.stD l
    rw [he]
    exact RelG.errD hstrict _

/-! ### the induction on the fuel -/

theorem static_nonvar {g : Term} (h : staticClosure g = true) : isVar g = false := by
  cases g <;> simp_all [staticClosure, isVar]

theorem ntOK_static (strict : Bool) {f : String} {as : List Term} (h1 : f ≠ "call") (h2 : f ≠ "phrase")
    (h3 : as ≠ []) : ntOK strict f as = true := by
  cases as with
  | nil => exact absurd rfl h3
  | cons a as => simp [ntOK, special, h1, h2]

/-- which case of `nt_level` applies to a closure with the arguments added -/
theorem closure_ok (strict : Bool) {gS : Term} (hnt : (!strict || staticClosure gS) = true)
    {f : String} {as : List Term} (has : as ≠ [])
    (hg : staticClosure gS = true → (f ≠ "call" ∧ f ≠ "phrase")) :
    ntOK strict f as = true ∨ (strict = false ∧ ntOK false f as = false) := by
  cases strict with
  | false =>
    cases h : ntOK false f as with
    | true => exact .inl rfl
    | false => exact .inr ⟨rfl, rfl⟩
  | true =>
    simp only [Bool.not_true, Bool.false_or] at hnt
    obtain ⟨h1, h2⟩ := hg hnt
    exact .inl (ntOK_static true h1 h2 has)

theorem call_simW (strict : Bool) (cfg : Cfg) (gr : Grammar) (hgr : ∀ r ∈ gr, GoodRuleW strict r) (n : Nat)
    (ih : LevelW strict cfg gr n) : CallW strict (dynH cfg gr n) (callH cfg.uf (programOf gr) n) := by
  have hsp : ∀ r ∈ gr, special r.name r.args.length = false := fun r hr => (hgr r hr).1
  intro f asS asD hnt W hW x l s hx has hs hlt
  by_cases hf : f = "call"
  · subst hf
    match asS, asD, has, hnt with
    | [], _, _, hnt => simp [ntOK] at hnt
    | [_], _, _, hnt => simp [ntOK] at hnt
    | gS :: aS :: restS, _, .cons hg (.cons ha hrest), hnt =>
      rename_i gD aD restD
      rw [callH_call, dynH_call]
      simp only [ntOK, if_true] at hnt
      have hσS : W.stS.σ = W.σS := rfl
      have hσD : W.stD.σ = W.σD := rfl
      rw [hσS, hσD]
      have hgg := (W.Eq_unfold gS gD).1 hg
      revert hgg
      cases hwS : walk W.σS gS with
      | atom f' =>
        intro hgg
        have hwD : walk W.σD gD = .atom f' := by
          revert hgg; generalize walk W.σD gD = w; intro hgg; cases hgg; rfl
        rw [hwD]
        simp only [addArgs]
        refine nt_level strict cfg gr hsp n ih f' (aS :: restS) (aD :: restD) ?_ hW hx (.cons ha hrest) hs hlt
        refine closure_ok strict hnt (by simp) (fun hst => ?_)
        have : gS = .atom f' := by rw [← hwS, walk_nonvar _ _ (static_nonvar hst)]
        subst this
        simpa [staticClosure] using hst
      | app f' bsS =>
        intro hgg
        obtain ⟨bsD, hwD, hbs⟩ : ∃ bsD, walk W.σD gD = .app f' bsD ∧ ArgsRel W.Eq bsS bsD := by
          revert hgg; generalize walk W.σD gD = w; intro hgg
          cases hgg with
          | app r => exact ⟨_, rfl, r⟩
        rw [hwD]
        simp only [addArgs]
        have e : bsS.toList ++ (aS :: restS ++ [x, .var s]) = (bsS.toList ++ aS :: restS) ++ [x, .var s] := by
          simp
        rw [e]
        refine nt_level strict cfg gr hsp n ih f' (bsS.toList ++ aS :: restS) (bsD.toList ++ aD :: restD) ?_ hW hx
          ((argsRel_toList hbs).append (.cons ha hrest)) hs hlt
        refine closure_ok strict hnt (by simp) (fun hst => ?_)
        have : gS = .app f' bsS := by rw [← hwS, walk_nonvar _ _ (static_nonvar hst)]
        subst this
        simpa [staticClosure] using hst
      | var a =>
        intro hgg
        have hwD : ∃ b, walk W.σD gD = .var b := by
          revert hgg; generalize walk W.σD gD = w; intro hgg; cases hgg; exact ⟨_, rfl⟩
        obtain ⟨b, hwD⟩ := hwD
        rw [hwD]; simp only [addArgs]; trivial
      | int a =>
        intro hgg
        have hwD : walk W.σD gD = .int a := by
          revert hgg; generalize walk W.σD gD = w; intro hgg; cases hgg; rfl
        rw [hwD]; simp only [addArgs]; trivial
      | flt a =>
        intro hgg
        have hwD : walk W.σD gD = .flt a := by
          revert hgg; generalize walk W.σD gD = w; intro hgg; cases hgg; rfl
        rw [hwD]; simp only [addArgs]; trivial
      | str a =>
        intro hgg
        have hwD : walk W.σD gD = .str a := by
          revert hgg; generalize walk W.σD gD = w; intro hgg; cases hgg; rfl
        rw [hwD]; simp only [addArgs]; trivial
  · have hsp' : special f asS.length = false := by
      simpa [ntOK, hf] using hnt
    have hp : ¬ (f = "phrase" ∧ asS.length = 1) := by
      rintro ⟨h1, h2⟩
      simp [special, h1, h2] at hsp'
    rw [callH_user _ _ _ _ _ _ _ _ hf hp, dynH_user _ _ _ _ _ _ _ hf, filter_clausesG, ← has.length_eq]
    simp only [List.isEmpty_map]
    split
    · trivial
    · have hr := rules_simW strict cfg gr n ih f asS asD hW hx has hs hlt
        (gr.filter (fun r => decide (r.name = f ∧ r.args.length = asS.length)))
        (fun r hr => by
          rw [List.mem_filter] at hr
          have := of_decide_eq_true hr.2
          exact ⟨hgr r hr.1, this.1, this.2⟩)
      revert hr
      generalize tryClauses cfg.uf (solve cfg.uf (programOf gr) n) (Term.mk f (asS ++ [x, .var s])) W.stS
        ((gr.filter (fun r => decide (r.name = f ∧ r.args.length = asS.length))).map Rule.clause) = rS
      generalize tryRules cfg.uf (den cfg gr n) asD W.stD l
        (gr.filter (fun r => decide (r.name = f ∧ r.args.length = asS.length))) = rD
      intro hr
      cases rS <;> cases rD <;> first | exact hr | exact ⟨rfl, hr⟩

/-! ### call//1, phrase//1, variable bodies -/

theorem callH_call3 (uf : Nat) (prog : Program) (n : Nat) (g x y : Term) (st : St) :
    callH uf prog n (Term.a3 "call" g x y) st =
      (match addArgs (walk st.σ g) [x, y] with
       | some g' => sBarrier (solve uf prog n g' st)
       | none => .error (.unsupported "call/N of a non-callable term")) := by
  simp [Term.a3, callH, Args.toList] <;> rfl

theorem callH_phrase3 (uf : Nat) (prog : Program) (n : Nat) (g x y : Term) (st : St) :
    callH uf prog n (Term.a3 "phrase" g x y) st =
      (match resolve uf st.σ g with
       | none => .error .fuel
       | some (.var _) => .error (.unsupported "instantiation_error: phrase/3 with an unbound body")
       | some b' =>
         match Body.ofTerm b' with
         | .error _ => .error (.unsupported "phrase/3: not a grammar body")
         | .ok bb => sBarrier (solve uf prog n (bb.tr x y st.next).1 { st with next := (bb.tr x y st.next).2 })) := by
  simp [Term.a3, callH] <;> rfl

theorem dynH_late (cfg : Cfg) (gr : Grammar) (n : Nat) (g : Term) (st : St) (l : Term) :
    dynH cfg gr n (.late g) st l =
      (match resolve cfg.uf st.σ g with
       | none => .error .fuel
       | some (.var _) => .error (.unsupported "instantiation_error: unbound run-time body")
       | some g' =>
         match Body.ofTerm g' with
         | .error _ => .error (.unsupported "run-time body is not a grammar body")
         | .ok b' => den cfg gr n true b' st l) := by
  simp [dynH] <;> rfl

/-- a non-terminal goal one level of fuel lower on the SLD side than in the denotation -/
theorem nt_call1 (cfg : Cfg) (gr : Grammar) (hgr : ∀ r ∈ gr, special r.name r.args.length = false) (n : Nat)
    (CW : CallW false (dynH cfg gr n) (callH cfg.uf (programOf gr) n)) (f : String) (asS asD : List Term)
    {W : World} (hW : W.Good) {x l : Term} {s : Nat} (hx : W.Eq x l) (has : All2 W.Eq asS asD)
    (hs : ¬ W.TS s) (hlt : s < W.nS) :
    RelW false W (fun v => v = s) s
      (sBarrier (solve cfg.uf (programOf gr) n (Term.mk f (asS ++ [x, .var s])) W.stS))
      (barrier (dynH cfg gr n (.nt f asD) W.stD l)) := by
  cases hS : solve cfg.uf (programOf gr) n (Term.mk f (asS ++ [x, .var s])) W.stS with
  | error e => exact RelG.errS (fun h => Bool.noConfusion h) _
  | ok A =>
    have hS' := solve_mono cfg.uf (programOf gr) n _ _ A hS
    rw [solve_succ] at hS'
    cases hnt : ntOK false f asS with
    | true =>
      rw [solveGoal_nt _ _ _ _ _ _ _ (ntOK_ctl hnt)] at hS'
      have := CW f asS asD hnt W hW x l s hx has hs hlt
      rw [hS'] at this
      exact RelG.barrier this
    | false =>
      obtain ⟨e, he⟩ := dynH_special_err cfg gr hgr n f asD
        (by rw [← ntOK_false_len f has.length_eq]; exact hnt) W.stD l
      rw [he]
      exact RelG.errD rfl _

theorem call1_simW (cfg : Cfg) (gr : Grammar) (hgr : ∀ r ∈ gr, special r.name r.args.length = false) (n : Nat)
    (CW : CallW false (dynH cfg gr n) (callH cfg.uf (programOf gr) n)) :
    Call1W (dynH cfg gr n) (callH cfg.uf (programOf gr) n) := by
  intro gS gD W hW x l s hx hg hs hlt
  rw [callH_call3]
  unfold denCall1
  have hσS : W.stS.σ = W.σS := rfl
  have hσD : W.stD.σ = W.σD := rfl
  rw [hσS, hσD]
  have hgg := (W.Eq_unfold gS gD).1 hg
  revert hgg
  cases hwS : walk W.σS gS with
  | atom f' =>
    intro hgg
    have hwD : walk W.σD gD = .atom f' := by
      revert hgg; generalize walk W.σD gD = w; intro hgg; cases hgg; rfl
    rw [hwD]
    simp only [addArgs]
    exact nt_call1 cfg gr hgr n CW f' [] [] hW hx .nil hs hlt
  | app f' bsS =>
    intro hgg
    obtain ⟨bsD, hwD, hbs⟩ : ∃ bsD, walk W.σD gD = .app f' bsD ∧ ArgsRel W.Eq bsS bsD := by
      revert hgg; generalize walk W.σD gD = w; intro hgg
      cases hgg with
      | app r => exact ⟨_, rfl, r⟩
    rw [hwD]
    simp only [addArgs]
    exact nt_call1 cfg gr hgr n CW f' bsS.toList bsD.toList hW hx (argsRel_toList hbs) hs hlt
  | var a => intro _; simp only [addArgs]; exact RelG.errS (fun h => Bool.noConfusion h) _
  | int a => intro _; simp only [addArgs]; exact RelG.errS (fun h => Bool.noConfusion h) _
  | flt a => intro _; simp only [addArgs]; exact RelG.errS (fun h => Bool.noConfusion h) _
  | str a => intro _; simp only [addArgs]; exact RelG.errS (fun h => Bool.noConfusion h) _

/-- the world with `k` more variables reserved on the SLD side (the hidden variables of a body
    translated at run time) -/
def World.bumpS (W : World) (k : Nat) : World := { W with nS := W.nS + k }

theorem World.bumpS_eq {W : World} (k : Nat) {t u : Term} (h : W.Eq t u) : (W.bumpS k).Eq t u := by
  intro j
  have := h j
  clear h
  induction j generalizing t u with
  | zero => trivial
  | succ j ih =>
    unfold Sim at this ⊢
    exact Sim1.mono this (fun _ _ r => r) (fun a b r => ih r)

theorem World.bumpS_ok {W : World} (hW : W.Good) (k : Nat) :
    (W.bumpS k).Good ∧ Step W (W.bumpS k) (fun _ => False) :=
  ⟨⟨hW.fn, hW.inj, fun v hv => Nat.lt_of_lt_of_le (hW.scS v hv) (Nat.le_add_right _ _), hW.scD, hW.unb⟩,
    ⟨fun _ _ h => World.bumpS_eq k h, ⟨[], rfl⟩, ⟨[], rfl⟩, Nat.le_add_right _ _, Nat.le_refl _,
      fun _ h => .inl h, fun _ h => .inl h⟩⟩

/-- the body read at run time, once both sides have resolved it -/
theorem late_core (cfg : Cfg) (gr : Grammar) (n : Nat) (ih : LevelW false cfg gr n)
    {W : World} (hW : W.Good) {x l : Term} {s : Nat} (hx : W.Eq x l) (hs : ¬ W.TS s) (hlt : s < W.nS)
    {tS tD : Term} (ht : TRel W.ρ tS tD) :
    RelW false W (fun v => v = s) s
      (match Body.ofTerm tS with
       | .error _ => .error (.unsupported "phrase/3: not a grammar body")
       | .ok bb => sBarrier (solve cfg.uf (programOf gr) n (bb.tr x (.var s) W.stS.next).1
           { W.stS with next := (bb.tr x (.var s) W.stS.next).2 }))
      (barrier (match Body.ofTerm tD with
       | .error _ => .error (.unsupported "run-time body is not a grammar body")
       | .ok b' => den cfg gr n true b' W.stD l)) := by
  have ho := ofTerm_sim tS tD ht
  revert ho
  cases hoS : Body.ofTerm tS with
  | error e => intro _; exact RelG.errS (fun h => Bool.noConfusion h) _
  | ok bb =>
    cases hoD : Body.ofTerm tD with
    | error e => intro ho; exact ho.elim
    | ok b' =>
      intro ho
      simp only []
      obtain ⟨g1, st1⟩ := World.bumpS_ok hW bb.nhid
      have hrel : BodyRel (W.bumpS bb.nhid).Eq bb b' := (BodyRel.mono ho (fun a b h => st1.eq _ _ (trel_eq hW a b h)))
      have P : PreW (W.bumpS bb.nhid) x l s W.nS (W.nS + bb.nhid) :=
        ⟨g1, st1.eq _ _ hx, hs, Nat.lt_of_lt_of_le hlt (Nat.le_add_right _ _),
          fun v h1 _ ht => by have := hW.scS v ht; omega, Nat.le_refl _, fun h => by omega⟩
      have := ih bb (ofTerm_ok tS bb hoS) b' (W.bumpS bb.nhid) hrel true x l s W.nS P
      have e1 : ({ W.stS with next := (bb.tr x (.var s) W.stS.next).2 } : St) = (W.bumpS bb.nhid).stS := by
        rw [tr_next]; rfl
      rw [e1]
      exact RelG.rebase' (RelG.barrier this) st1 (fun _ h => h.elim) (fun v h => by
        rcases h with h | h
        · exact .inl h
        · exact .inr h.1)

theorem late_simW (cfg : Cfg) (gr : Grammar) (n : Nat) (ih : LevelW false cfg gr n) :
    LateW (dynH cfg gr n) (callH cfg.uf (programOf gr) n) := by
  intro gS gD W hW x l s hx hg hs hlt
  rw [callH_phrase3, dynH_late]
  have hσS : W.stS.σ = W.σS := rfl
  have hσD : W.stD.σ = W.σD := rfl
  rw [hσS, hσD]
  have hres := resolve_sim W cfg.uf gS gD (hg cfg.uf)
  revert hres
  cases resolve cfg.uf W.σS gS with
  | none =>
    cases resolve cfg.uf W.σD gD with
    | none => intro _; trivial
    | some _ => intro h; exact h.elim
  | some tS =>
    cases resolve cfg.uf W.σD gD with
    | none => intro h; exact h.elim
    | some tD =>
      intro ht
      have ht' : TRel W.ρ tS tD := ht
      cases ht' with
      | var r => trivial
      | atom a => exact late_core cfg gr n ih hW hx hs hlt (.atom a)
      | int a => exact late_core cfg gr n ih hW hx hs hlt (.int a)
      | flt a => exact late_core cfg gr n ih hW hx hs hlt (.flt a)
      | str a => exact late_core cfg gr n ih hW hx hs hlt (.str a)
      | app r => exact late_core cfg gr n ih hW hx hs hlt (.app r)

/-- **semantic preservation, at every fuel level** -/
theorem level_simW (strict : Bool) (cfg : Cfg) (hcfg : cfg.engine = false) (gr : Grammar)
    (hgr : ∀ r ∈ gr, GoodRuleW strict r) : ∀ n, LevelW strict cfg gr n := by
  intro n
  induction n with
  | zero => intro bS _ bD W _ top x l s m _; simp only [solve, den]; trivial
  | succ n ih =>
    intro bS hok bD W hrel top x l s m P
    rw [solve_succ, den_succ]
    have hsp : ∀ r ∈ gr, special r.name r.args.length = false := fun r hr => (hgr r hr).1
    refine body_simW cfg hcfg strict _ _ (call_simW strict cfg gr hgr n ih) (fun _ => dynH_special_err cfg gr hsp n)
      (fun hs => ?_) (fun hs => ?_) bS hok bD W hrel top x l s m P
    · subst hs
      exact call1_simW cfg gr hsp n (call_simW false cfg gr hgr n ih)
    · subst hs
      exact late_simW cfg gr n ih

end PrologVerif.Grammar
