/-
  Model of the loader: engine/text.go `VM.Compile`, `VM.compile` (the read loop), `text.flush`,
  `VM.directive`, `text.forEachUserDefined`; engine/clause.go `compile` (through `DB.compile`).

  What is abstracted (and by what):
  * the reader: the input is the list of READ RESULTS `Item` (a term, or a syntax error) — so a
    statement "for all item lists" covers every fault position and every text;
  * term expansion (DCG): items carry the expanded term;
  * execution of an ordinary directive / initialization goal: an oracle `call` that may have
    side effects on the procedure table (it returns the new table); "side-effect free" is a
    hypothesis of the theorems that need it, not built in;
  * `include/1`: the file system is a function from names to item lists.  Go recurses into the
    file with the SAME staging text and no flush at its end, then continues: exactly as if the
    file's items were spliced in front of the remaining ones (which is how it is written here;
    `fuel` bounds the total number of items processed, an include cycle runs out of it);
  * `ensure_loaded/1` is a load of its own with its own commit; it goes through the oracle.

  Core Lean only.
-/
import PrologVerif.Model.DB
namespace PrologVerif.Load
open PrologVerif PrologVerif.DB

/-- `userDefined` -/
structure UProc where
  isPublic : Bool
  dynamic : Bool
  multifile : Bool
  discontiguous : Bool
  clauses : List Term
  deriving DecidableEq

def UProc.empty : UProc := ⟨false, false, false, false, []⟩

/-- `u, ok := t.clauses[pi]; if !ok { u = &userDefined{} }` -/
def orEmpty : Option UProc → UProc
  | some u => u
  | none => UProc.empty

/-- an entry of `VM.procedures` -/
inductive Procedure where
  | builtin
  | user (u : UProc)
  deriving DecidableEq

/-- finite maps keyed by predicate indicators (Go maps) -/
abbrev Table (α : Type) := List (PI × α)

def Table.get : Table α → PI → Option α
  | [], _ => none
  | (k, v) :: ps, pi => if k = pi then some v else Table.get ps pi

def Table.set : Table α → PI → α → Table α
  | [], pi, p => [(pi, p)]
  | (k, v) :: ps, pi, p => if k = pi then (k, p) :: ps else (k, v) :: Table.set ps pi p

abbrev Procs := Table Procedure

/-- one read result of `Parser.Term` (after `expand`) -/
inductive Item where
  | term (t : Term)
  | syntaxError
  deriving DecidableEq

/-- what a load can fail with -/
inductive LoadErr where
  /-- the reader's error (unexpected token, end of text inside a clause) -/
  | syntax
  /-- `error(Formal, _)` -/
  | iso (formal : Term)
  /-- any other ball thrown by a directive -/
  | ball (t : Term)
  | discontiguous (pi : PI)
  | failedDirective
  | failedInit
  | outOfFuel
  deriving DecidableEq

/-- `text` -/
structure Text where
  /-- current run: clauses of one predicate, `(clause.pi, clause.raw)` -/
  buf : List (PI × Term)
  /-- staged definitions -/
  clauses : Table UProc
  /-- deferred initialization goals -/
  goals : List Term
  deriving DecidableEq

def Text.empty : Text := ⟨[], [], []⟩

inductive GoalResult where
  | ok | failed | raisedIso (formal : Term) | raisedBall (t : Term)
  deriving DecidableEq

/-- executing a goal against the live table: new table and outcome -/
abbrev Call := Procs → Term → Procs × GoalResult

abbrev FS := String → Option (List Item)

/-- `text.flush` -/
def flush (tx : Text) : Except LoadErr Text :=
  match tx.buf with
  | [] => .ok tx
  | (pi, _) :: _ =>
    let u := orEmpty (tx.clauses.get pi)
    if u.clauses ≠ [] ∧ u.discontiguous = false then .error (.discontiguous pi)
    else .ok { tx with clauses := tx.clauses.set pi { u with clauses := u.clauses ++ tx.buf.map (·.2) }, buf := [] }

/-- the elements `anyIterator` yields and the error of its `Err()` -/
def anyElems (t : Term) : List Term × Option LoadErr :=
  match t with
  | .app "." (.cons _ (.cons _ .nil)) =>
    (t.spine.1,
      match t.spine.2 with
      | .atom "[]" => none
      | .var _ => some (.iso instErr)
      | _ => some (.iso (typeErr "list" t)))
  | _ => (seqGoals t, none)

/-- one element of a `dynamic/multifile/discontiguous` argument -/
def declPI : Term → Except LoadErr PI
  | .var _ => .error (.iso instErr)
  | .app "/" (.cons n (.cons a .nil)) =>
    match n with
    | .var _ => .error (.iso instErr)
    | .atom name =>
      match a with
      | .var _ => .error (.iso instErr)
      | .int i => .ok ⟨name, i.toNat⟩
      | _ => .error (.iso (typeErr "predicate_indicator" (.app "/" (.cons n (.cons a .nil)))))
    | _ => .error (.iso (typeErr "predicate_indicator" (.app "/" (.cons n (.cons a .nil)))))
  | t => .error (.iso (typeErr "predicate_indicator" t))

/-- `text.forEachUserDefined` -/
def forEachUserDefined (tx : Text) (arg : Term) (f : UProc → UProc) : Except LoadErr Text :=
  let (elems, tailErr) := anyElems arg
  let rec go : List Term → Table UProc → Except LoadErr (Table UProc)
    | [], cs => match tailErr with
      | none => .ok cs
      | some e => .error e
    | e :: es, cs =>
      match declPI e with
      | .error err => .error err
      | .ok pi =>
        go es (cs.set pi (f (orEmpty (cs.get pi))))
  match go elems tx.clauses with
  | .ok cs => .ok { tx with clauses := cs }
  | .error e => .error e

def errOfFormal (e : Term) : LoadErr := .iso e

/-- `VM.open` for `include/1` -/
def openFile (fs : FS) : Term → Except LoadErr (List Item)
  | .var _ => .error (.iso instErr)
  | .atom f =>
    match fs f with
    | some items => .ok items
    | none => .error (.iso (existenceErr "source_sink" (.atom f)))
  | t => .error (.iso (typeErr "atom" t))

/-- state of a load in progress: the LIVE table (only directives can touch it) and the staging text -/
structure LoadState where
  procs : Procs
  tx : Text

/-- outcome of running a goal as a directive -/
def directiveResult (ls : LoadState) (r : Procs × GoalResult) : LoadState × Option LoadErr :=
  let ls' := { ls with procs := r.1 }
  match r.2 with
  | .ok => (ls', none)
  | .failed => (ls', some .failedDirective)
  | .raisedIso e => (ls', some (.iso e))
  | .raisedBall t => (ls', some (.ball t))

/-- what processing one item means for the read loop -/
inductive Step where
  /-- go on with the remaining items -/
  | next (ls : LoadState)
  /-- `include/1`: go on with these items first (same staging text, no flush at their end) -/
  | splice (items : List Item) (ls : LoadState)
  /-- return this error -/
  | stop (ls : LoadState) (e : LoadErr)

/-- `dynamic/1`, `multifile/1`, `discontiguous/1` -/
def declare (ls : LoadState) (a : Term) (f : UProc → UProc) : Step :=
  match forEachUserDefined ls.tx a f with
  | .ok tx' => .next { ls with tx := tx' }
  | .error e => .stop ls e

/-- `VM.directive` -/
def directive (fs : FS) (call : Call) (ls : LoadState) (d : Term) : Step :=
  match flush ls.tx with
  | .error e => .stop ls e
  | .ok tx =>
    let ls := { ls with tx := tx }
    match d with
    | .app "dynamic" (.cons a .nil) => declare ls a (fun u => { u with dynamic := true, isPublic := true })
    | .app "multifile" (.cons a .nil) => declare ls a (fun u => { u with multifile := true })
    | .app "discontiguous" (.cons a .nil) => declare ls a (fun u => { u with discontiguous := true })
    | .app "initialization" (.cons g .nil) => .next { ls with tx := { tx with goals := tx.goals ++ [g] } }
    | .app "include" (.cons f .nil) =>
      match openFile fs f with
      | .ok items => .splice items ls
      | .error e => .stop ls e
    | g =>
      match directiveResult ls (call ls.procs g) with
      | (ls', none) => .next ls'
      | (ls', some e) => .stop ls' e

/-- a clause: `piArg(et)` (for a rule `piArg(head)`), flush when the predicate changes,
    `compile`, append to the run -/
def stageClause (ls : LoadState) (t : Term) : Step :=
  match clausePI t with
  | .error e => .stop ls (.iso e)
  | .ok pi =>
    let flushed := match ls.tx.buf with
      | (pi0, _) :: _ => if pi ≠ pi0 then flush ls.tx else .ok ls.tx
      | [] => .ok ls.tx
    match flushed with
    | .error e => .stop ls e
    | .ok tx =>
      match DB.compile t with
      | .error e => .stop { ls with tx := tx } (.iso e)
      | .ok raws => .next { ls with tx := { tx with buf := tx.buf ++ raws.map fun r => (pi, r) } }

def stepItem (fs : FS) (call : Call) (ls : LoadState) : Item → Step
  | .syntaxError => .stop ls .syntax
  | .term (.app ":-" (.cons d .nil)) => directive fs call ls d
  | .term t => stageClause ls t

/-- `VM.compile`, the read loop.  Returns the state reached and the error, if any (the state
    matters also when there is an error: it holds the live table). -/
def compileLoop (fs : FS) (call : Call) : Nat → List Item → LoadState → LoadState × Option LoadErr
  | 0, _, ls => (ls, some .outOfFuel)
  | _ + 1, [], ls => (ls, none)
  | fuel + 1, it :: rest, ls =>
    match stepItem fs call ls it with
    | .next ls' => compileLoop fs call fuel rest ls'
    | .splice items ls' => compileLoop fs call fuel (items ++ rest) ls'
    | .stop ls' e => (ls', some e)

/-- one iteration of the commit loop of `VM.Compile` -/
def commitStep (ps : Procs) (e : PI × UProc) : Procs :=
  match ps.get e.1 with
  | some (.user existing) =>
    if existing.multifile = true ∧ e.2.multifile = true then
      ps.set e.1 (.user { existing with clauses := existing.clauses ++ e.2.clauses })
    else ps.set e.1 (.user e.2)
  | _ => ps.set e.1 (.user e.2)

/-- the commit loop of `VM.Compile` -/
def commit (procs : Procs) (staged : Table UProc) : Procs := staged.foldl commitStep procs

/-- the initialization goals, after the commit -/
def runGoals (call : Call) : List Term → Procs → Procs × Option LoadErr
  | [], ps => (ps, none)
  | g :: gs, ps =>
    match call ps g with
    | (ps', .ok) => runGoals call gs ps'
    | (ps', .failed) => (ps', some .failedInit)
    | (ps', .raisedIso e) => (ps', some (.iso e))
    | (ps', .raisedBall t) => (ps', some (.ball t))

/-- everything `VM.Compile` does BEFORE the commit loop: the read loop and the final flush -/
def stage (fs : FS) (call : Call) (fuel : Nat) (procs : Procs) (items : List Item) : LoadState × Option LoadErr :=
  match compileLoop fs call fuel items ⟨procs, Text.empty⟩ with
  | (ls, some e) => (ls, some e)
  | (ls, none) =>
    match flush ls.tx with
    | .error e => (ls, some e)
    | .ok tx => ({ ls with tx := tx }, none)

/-- `VM.Compile`: the table afterwards and the error returned, if any -/
def Compile (fs : FS) (call : Call) (fuel : Nat) (procs : Procs) (items : List Item) : Procs × Option LoadErr :=
  match stage fs call fuel procs items with
  | (ls, some e) => (ls.procs, some e)
  | (ls, none) => runGoals call ls.tx.goals (commit ls.procs ls.tx.clauses)

end PrologVerif.Load
