/-
  Model/Eval — hand-written model of `eval`, `Is` and the six comparison predicates of
  engine/number.go (the functions the translator does not take: they work on terms, environments and
  promises).  Everything numeric is delegated to the TRANSLATED kernels (Generated/Arith):
  `evalUnary/evalBinary` are the dispatch tables of number.go, the comparison kernels are the
  translated `eqI … geqIF`.  Core only.

  Tie: the normalised source text of eval/Is/Equal, the kernels each comparison predicate calls and
  the registration of the predicates are regenerated facts (Generated.Arith.source_eval …) that
  Properties/C07 compares with the text this model was written against; the behaviour is checked by
  the correspondence stream c07.queries.
-/
import PrologVerif.Basic
import PrologVerif.Model.Errors
import PrologVerif.Generated.Arith
namespace PrologVerif.Eval
open PrologVerif PrologVerif.Arith PrologVerif.Generated.Arith

variable {F : Type} [FloatOps F]

/-- what `eval` returns: a number, an ISO error term (context dropped) or a Go panic -/
inductive Res (F : Type) where
  | num (n : Num F)
  | err (formal : Term)
  | panic (p : GoPanic)

def culpritTerm : Culprit → Term
  | .int i => .int i
  | .flt b => .flt b

/-- `eval`'s deferred conversion: exceptionalValue ↦ evaluation_error(E); type errors pass through -/
def ofKernel (r : Except Err (Num F)) : Res F :=
  match r with
  | .ok n => .num n
  | .error (.ev e) => .err (evaluationErr e.atom)
  | .error (.typeError vt c) => .err (typeErr vt (culpritTerm c))
  | .error (.panic p) => .panic p

def notEvaluable (name : String) (arity : Nat) : Term :=
  typeErr "evaluable" (Term.a2 "/" (.atom name) (.int arity))

/-- bits of math.Pi -/
def piBits : UInt64 := 0x400921FB54442D18

/-- engine/number.go `eval` on a resolved term.  The functor is looked up BEFORE the arguments are
    evaluated, arguments left to right, the first error wins. -/
def eval : Term → Res F
  | .var _ => .err instErr
  | .atom a => if a = "pi" then .num (.flt (FloatOps.ofBits piBits)) else .err (notEvaluable a 0)
  | .int i => .num (.int (I64.ofInt i))
  | .flt b => .num (.flt (FloatOps.ofBits b))
  | .str _ => .err (typeErr "evaluable" (Term.a2 "/" (.str 0) (.int 0)))
  | .app f (.cons a .nil) =>
    match evalUnary (F := F) f with
    | none => .err (notEvaluable f 1)
    | some g =>
      match eval a with
      | .num x => ofKernel (g x)
      | r => r
  | .app f (.cons a (.cons b .nil)) =>
    match evalBinary (F := F) f with
    | none => .err (notEvaluable f 2)
    | some g =>
      match eval a with
      | .num x =>
        match eval b with
        | .num y => ofKernel (g x y)
        | r => r
      | r => r
  | .app f as => .err (notEvaluable f as.length)

/-- the kernels a comparison predicate dispatches to, by the Prolog name of the predicate
    (Integer×Integer, Integer×Float, Float×Integer, Float×Float); `U.k F` is the translated kernel `k`
    with `F` passed explicitly (Generated.Arith.U) -/
def cmpKernels (op : String) : Option ((I64 → I64 → Bool) × (I64 → F → Bool) × (F → I64 → Bool) × (F → F → Bool)) :=
  match op with
  | "=:=" => some (U.eqI F, U.eqIF F, U.eqFI F, U.eqF F)
  | "=\\=" => some (U.neqI F, U.neqIF F, U.neqFI F, U.neqF F)
  | "<" => some (U.lssI F, U.lssIF F, U.lssFI F, U.lssF F)
  | "=<" => some (U.leqI F, U.leqIF F, U.leqFI F, U.leqF F)
  | ">" => some (U.gtrI F, U.gtrIF F, U.gtrFI F, U.gtrF F)
  | ">=" => some (U.geqI F, U.geqIF F, U.geqFI F, U.geqF F)
  | _ => none

def compareNums (k : (I64 → I64 → Bool) × (I64 → F → Bool) × (F → I64 → Bool) × (F → F → Bool)) : Num F → Num F → Bool
  | .int x, .int y => k.1 x y
  | .int x, .flt y => k.2.1 x y
  | .flt x, .int y => k.2.2.1 x y
  | .flt x, .flt y => k.2.2.2 x y

/-- outcome of a goal `E1 op E2` / `X is E` with X unbound -/
inductive Answer (F : Type) where
  | value (n : Num F)      -- is/2: X = n
  | holds (b : Bool)       -- comparison: succeeds / fails
  | err (formal : Term)
  | panic (p : GoPanic)

/-- `Equal … GreaterThanOrEqual`: both sides are evaluated (left first), then compared -/
def compare (op : String) (e1 e2 : Term) : Option (Answer F) :=
  match cmpKernels (F := F) op with
  | none => none
  | some k =>
    some <| match eval (F := F) e1 with
    | .num x =>
      match eval (F := F) e2 with
      | .num y => .holds (compareNums k x y)
      | .err t => .err t
      | .panic p => .panic p
    | .err t => .err t
    | .panic p => .panic p

/-- `Is` with an unbound left-hand side -/
def is (e : Term) : Answer F :=
  match eval (F := F) e with
  | .num n => .value n
  | .err t => .err t
  | .panic p => .panic p

end PrologVerif.Eval
